// Shared by all targets: bytes -> hand-written decoder (lsmv::bytecase) -> the same case types the
// property-based checks use -> the same interpreter and auditors.

pub fn init() {
    static ONCE: std::sync::Once = std::sync::Once::new();
    ONCE.call_once(|| {
        lsmv::runner::install_panic_hook();
    });
}

/// semantic oracle failed: save the structured case for `./check <ID> replay`, then crash
pub fn report(id: &str, case_json: serde_json::Value, what: &str) -> ! {
    let dir = lsmv::util::verif_root().join("replays");
    let _ = std::fs::create_dir_all(&dir);
    let h = lsmv::util::fnv(case_json.to_string().as_bytes());
    let p = dir.join(format!("{id}-fuzz-{h:016x}.json")).display().to_string();
    let v = serde_json::json!({"property": id, "kind": "fuzz", "case": case_json, "failure": {"op_index": 0, "what": what}});
    let _ = std::fs::write(&p, serde_json::to_string_pretty(&v).unwrap_or_default());
    let _ = std::panic::take_hook();
    eprintln!("ORACLE FAILURE property={id} replay={p} : {what}");
    std::process::abort();
}
