#![no_main]
mod common;
use libfuzzer_sys::fuzz_target;

fuzz_target!(|data: &[u8]| {
    common::init();
    let strat = lsmv::tablecheck::mixed_strategy(800);
    let Some(case) = common::decode(&strat, data) else { return };
    if let Err(f) = lsmv::tablecheck::run(&case) {
        common::report("C12", serde_json::to_value(&case).unwrap_or_default(), &f.what);
    }
});
