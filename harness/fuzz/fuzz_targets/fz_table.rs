#![no_main]
mod common;
use libfuzzer_sys::fuzz_target;

fuzz_target!(|data: &[u8]| {
    common::init();
    let case = lsmv::bytecase::decode_table_case(data, 800);
    if let Err(f) = lsmv::tablecheck::run(&case) {
        common::report("C12", serde_json::to_value(&case).unwrap_or_default(), &f.what);
    }
});
