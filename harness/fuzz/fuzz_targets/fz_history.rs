#![no_main]
mod common;
use libfuzzer_sys::fuzz_target;

const IDS: [&str; 12] = ["C01", "C02", "C04", "C07", "C08", "C09", "C13", "C14", "C15", "C17", "C18", "C20"];

fuzz_target!(|data: &[u8]| {
    common::init();
    if data.len() < 2 {
        return;
    }
    // FUZZ_PROP pins the property, otherwise the first byte selects it
    let id = match std::env::var("FUZZ_PROP") {
        Ok(p) => IDS.iter().copied().find(|x| *x == p).unwrap_or("C01"),
        Err(_) => IDS[(data[0] as usize * IDS.len()) >> 8],
    };
    let Some(spec) = lsmv::props::spec(id) else { return };
    let mut g = spec.gen.clone();
    g.max_ops = 80;
    g.big_pool_pct = 0; // big pools cost seconds per case under ASan; the proptest tiers cover them
    // bytes -> case by the hand-written decoder (same input domain as the proptest strategy)
    let case = lsmv::bytecase::decode_case(&g, &data[1..]);
    if let Err(f) = lsmv::runner::run_case(&spec, &case) {
        if lsmv::runner::load_known(id).iter().any(|k| f.what.contains(&k.signature)) {
            return;
        }
        common::report(id, serde_json::to_value(&case).unwrap_or_default(), &f.what);
    }
});
