#![no_main]
mod common;
use libfuzzer_sys::fuzz_target;

fuzz_target!(|data: &[u8]| {
    common::init();
    let Some(spec) = lsmv::props::spec("C03") else { return };
    let mut g = spec.gen.clone();
    g.max_ops = 80;
    g.big_pool_pct = 0; // big pools cost seconds per case under ASan; the proptest tiers cover them
    let case = lsmv::bytecase::decode_case(&g, data);
    if let Err(f) = lsmv::runner::run_case(&spec, &case) {
        common::report("C03", serde_json::to_value(&case).unwrap_or_default(), &f.what);
    }
});
