//! C12: a table returns every item written to it through every read path (no tree involved).

use crate::exec::{Failure, Stats};
use crate::spec::FilterSpec;
use crate::util::hex;
use lsm_tree::table::filter::standard_bloom::Builder as Bloom;
use lsm_tree::{Cache, CompressionType, DescriptorTable, InternalValue, SeqNo, Slice, Table, ValueType};
use proptest::collection::vec;
use proptest::prelude::*;
use serde::{Deserialize, Serialize};
use std::ops::Bound;
use std::path::Path;
use std::sync::Arc;

#[derive(Serialize, Deserialize, Clone, Debug)]
pub struct TEntry {
    pub key: Vec<u8>,
    pub seqno: u64,
    pub ty: u8, // 0 value, 1 tombstone, 2 weak, 3 indirection
    pub vlen: u32,
}

#[derive(Serialize, Deserialize, Clone, Debug)]
pub struct TableCase {
    pub entries: Vec<TEntry>, // already strictly ordered
    pub block_size: u32,
    pub restart: u8,
    pub hash_ratio: f32,
    pub meta_partition: u32,
    pub part_index: bool,
    pub part_filter: bool,
    pub filter: FilterSpec,
    pub data_lz4: bool,
    pub index_lz4: bool,
    pub pin_filter: bool,
    pub pin_index: bool,
    pub cache_bytes: u64,
    pub fd: Option<usize>,
    pub global_seqno: u64,
    /// range queries: (lo idx frac, lo kind, hi idx frac, hi kind, pops)
    pub ranges: Vec<(u16, u8, u16, u8, Vec<bool>)>,
}

fn vt(t: u8) -> ValueType {
    match t {
        0 => ValueType::Value,
        1 => ValueType::Tombstone,
        2 => ValueType::WeakTombstone,
        _ => ValueType::Indirection,
    }
}

fn value_of(e: &TEntry) -> Vec<u8> {
    if e.ty == 1 || e.ty == 2 {
        return vec![];
    }
    let h = crate::util::fnv(&[e.key.as_slice(), &e.seqno.to_le_bytes()].concat()).to_le_bytes();
    (0..e.vlen as usize).map(|i| h[i % 8] ^ (i / 8) as u8).collect()
}

/// Boundary-biased cases: one block holding a number of entries around 254/255/256 restart intervals
/// (the hash index can address at most 254), hash index on.
pub fn boundary_strategy() -> impl Strategy<Value = TableCase> {
    (
        prop_oneof![3 => Just(1u8), 2 => Just(2u8), 1 => Just(3u8), 1 => Just(16u8)],
        250usize..=258,
        0usize..17,
        prop_oneof![Just(0.5f32), Just(1.0f32), Just(4.0f32), Just(8.0f32)],
        prop_oneof![Just(vec![]), Just(vec![b'k']), vec(any::<u8>(), 1..3)],
        any::<bool>(),
        prop_oneof![2 => Just(0u64), 1 => 1u64..1000],
        vec((any::<u16>(), 0u8..6, any::<u16>(), 0u8..6, vec(any::<bool>(), 0..12)), 0..3),
    )
        .prop_map(|(restart, heads, extra, hash_ratio, prefix, pin_index, global_seqno, ranges)| {
            // `heads` restart intervals: (heads - 1) * restart + 1 ..= heads * restart entries
            let n = ((heads - 1) * restart as usize + 1 + extra % (restart as usize)).min(5000);
            let entries = (0..n)
                .map(|i| {
                    let mut key = prefix.clone();
                    key.extend_from_slice(&(i as u16).to_be_bytes());
                    TEntry {
                        key,
                        seqno: (i % 7) as u64,
                        ty: if i % 11 == 3 { 1 } else { 0 },
                        vlen: (i % 3) as u32,
                    }
                })
                .collect();
            TableCase {
                entries,
                block_size: 4 * 1024 * 1024,
                restart,
                hash_ratio,
                meta_partition: 4096,
                part_index: false,
                part_filter: false,
                filter: FilterSpec::Bpk(10.0),
                data_lz4: false,
                index_lz4: false,
                pin_filter: true,
                pin_index,
                cache_bytes: 16 << 20,
                fd: Some(10),
                global_seqno,
                ranges,
            }
        })
}

pub fn mixed_strategy(max_entries: usize) -> impl Strategy<Value = TableCase> {
    prop_oneof![
        9 => strategy(max_entries).boxed(),
        1 => boundary_strategy().boxed(),
    ]
}

pub fn strategy(max_entries: usize) -> impl Strategy<Value = TableCase> {
    // keys: common prefix + suffix; versions per key 1..8
    let prefix = prop_oneof![
        5 => Just(vec![]),
        3 => vec(any::<u8>(), 1..8),
        2 => vec(prop_oneof![Just(b'p'), any::<u8>()], 20..200),
    ];
    let suffix = prop_oneof![
        5 => vec(prop_oneof![Just(0u8), Just(b'a'), Just(b'b'), Just(0xFFu8)], 0..4),
        5 => vec(any::<u8>(), 1..12),
        1 => vec(any::<u8>(), 12..400),
        1 => (400usize..6000, any::<u8>()).prop_map(|(n, b)| vec![b; n]),
    ];
    let vlen = prop_oneof![
        2 => Just(0u32),
        8 => 1u32..40,
        4 => 40u32..300,
        1 => 300u32..5000,
        1 => 60_000u32..70_000,
    ];
    let versions = vec((any::<u64>(), 0u8..4, vlen), 1..8);
    let keyspec = (suffix, versions);
    // dense mode: many tiny entries
    let n_keys = prop_oneof![6 => 1usize..40, 3 => 40usize..(max_entries / 2).max(41), 1 => 250usize..(max_entries.max(300))];
    let keys = n_keys.prop_flat_map(move |n| vec(keyspec.clone(), n..=n));
    (
        (prefix, keys, any::<bool>()),
        (
            prop_oneof![3 => Just(1u32), 2 => Just(64), 2 => Just(128), 2 => Just(512), 3 => Just(4096), 1 => Just(65_536), 1 => 1u32..65_536],
            prop_oneof![3 => Just(1u8), 2 => Just(2), 2 => Just(3), 3 => Just(16), 2 => 1u8..=255],
            prop_oneof![3 => Just(0.0f32), 1 => Just(0.5f32), 1 => Just(1.0f32), 1 => Just(4.0f32), 1 => Just(8.0f32)],
            prop_oneof![2 => Just(1u32), 2 => Just(64u32), 2 => Just(512u32), 3 => Just(4096u32)],
            any::<bool>(),
            any::<bool>(),
            prop_oneof![
                2 => Just(FilterSpec::None),
                1 => Just(FilterSpec::Bpk(0.0)),
                4 => (1u8..20).prop_map(|b| FilterSpec::Bpk(b as f32)),
                2 => prop_oneof![Just(0.5f32), Just(0.1f32), Just(0.01f32), Just(0.0001f32)].prop_map(FilterSpec::Fpr),
            ],
        ),
        (
            any::<bool>(),
            any::<bool>(),
            any::<bool>(),
            any::<bool>(),
            prop_oneof![Just(0u64), Just(16u64 << 20)],
            prop_oneof![Just(None), Just(Some(1usize)), Just(Some(10usize))],
            prop_oneof![2 => Just(0u64), 1 => 1u64..1_000_000],
            vec((any::<u16>(), 0u8..6, any::<u16>(), 0u8..6, vec(any::<bool>(), 0..20)), 0..6),
        ),
    )
        .prop_map(
            move |(
                (prefix, keys, tiny),
                (block_size, restart, hash_ratio, meta_partition, part_index, part_filter, filter),
                (data_lz4, index_lz4, pin_filter, pin_index, cache_bytes, fd, global_seqno, ranges),
            )| {
                let mut ks: Vec<(Vec<u8>, Vec<(u64, u8, u32)>)> = keys
                    .into_iter()
                    .map(|(s, v)| {
                        let mut k = prefix.clone();
                        k.extend_from_slice(&s);
                        if k.is_empty() {
                            k.push(b'a');
                        }
                        (k, v)
                    })
                    .collect();
                ks.sort_by(|a, b| a.0.cmp(&b.0));
                ks.dedup_by(|a, b| a.0 == b.0);
                let mut entries = vec![];
                for (k, mut vs) in ks {
                    for v in vs.iter_mut() {
                        v.0 >>= 1; // seqnos < 2^63
                        if v.0 > 1 << 40 {
                            v.0 %= 1000; // mostly small, clustered seqnos
                        }
                        if tiny {
                            v.2 %= 4;
                        }
                    }
                    vs.sort_by(|a, b| b.0.cmp(&a.0));
                    vs.dedup_by(|a, b| a.0 == b.0);
                    for (s, t, l) in vs {
                        entries.push(TEntry {
                            key: k.clone(),
                            seqno: s,
                            ty: t,
                            vlen: l,
                        });
                    }
                }
                entries.truncate(max_entries);
                TableCase {
                    entries,
                    block_size,
                    restart,
                    hash_ratio,
                    meta_partition,
                    part_index,
                    part_filter,
                    filter,
                    data_lz4,
                    index_lz4,
                    pin_filter,
                    pin_index,
                    cache_bytes,
                    fd,
                    global_seqno,
                    ranges,
                }
            },
        )
}

fn eq_item(got: &InternalValue, e: &TEntry, g: u64) -> bool {
    got.key.user_key.as_ref() == e.key.as_slice()
        && got.key.seqno == e.seqno + g
        && got.key.value_type == vt(e.ty)
        && got.value.as_ref() == value_of(e).as_slice()
}

fn desc(e: &TEntry) -> String {
    format!("({}, seqno {}, type {}, vlen {})", hex(&e.key), e.seqno, e.ty, e.vlen)
}

pub fn run(case: &TableCase) -> Result<Stats, Failure> {
    let root = crate::runner::fresh_dir();
    let r = std::panic::catch_unwind(std::panic::AssertUnwindSafe(|| run_inner(case, &root)));
    crate::util::rm_rf(&root);
    match r {
        Ok(Ok(s)) => Ok(s),
        Ok(Err(what)) => Err(Failure { op_index: 0, what }),
        Err(_) => Err(Failure {
            op_index: 0,
            what: format!("panic: {}", crate::runner::take_panic().unwrap_or_default()),
        }),
    }
}

fn run_inner(case: &TableCase, root: &Path) -> Result<Stats, String> {
    let mut stats = Stats::default();
    if case.entries.is_empty() {
        return Ok(stats);
    }
    let g = case.global_seqno;
    let path = root.join("7");
    let comp = |b: bool| if b { CompressionType::Lz4 } else { CompressionType::None };
    let mut w = lsm_tree::table::Writer::new(path.clone(), 7, 0)
        .map_err(|e| format!("Writer::new: {e:?}"))?
        .use_data_block_size(case.block_size)
        .use_data_block_restart_interval(case.restart)
        .use_data_block_hash_ratio(case.hash_ratio)
        .use_data_block_compression(comp(case.data_lz4))
        .use_index_block_compression(comp(case.index_lz4))
        .use_bloom_policy(match &case.filter {
            FilterSpec::None | FilterSpec::Bpk(0.0) => lsm_tree::config::BloomConstructionPolicy::BitsPerKey(0.0),
            FilterSpec::Bpk(b) => lsm_tree::config::BloomConstructionPolicy::BitsPerKey(*b),
            FilterSpec::Fpr(p) => lsm_tree::config::BloomConstructionPolicy::FalsePositiveRate(*p),
        });
    if case.part_index {
        w = w.use_partitioned_index();
    }
    if case.part_filter {
        w = w.use_partitioned_filter();
    }
    if case.part_index || case.part_filter {
        w = w.use_meta_partition_size(case.meta_partition);
    }
    for e in &case.entries {
        w.write(InternalValue::from_components(
            e.key.clone(),
            value_of(e),
            e.seqno,
            vt(e.ty),
        ))
        .map_err(|er| format!("Writer::write {}: {er:?}", desc(e)))?;
    }
    let (_, checksum) = w
        .finish()
        .map_err(|e| format!("Writer::finish: {e:?}"))?
        .ok_or("Writer::finish returned None for a non-empty stream")?;
    let cache = Arc::new(Cache::with_capacity_bytes(case.cache_bytes));
    let fd = case.fd.map(|n| Arc::new(DescriptorTable::new(n)));
    let table = Table::recover(path, checksum, g, 0, cache, fd, case.pin_filter, case.pin_index)
        .map_err(|e| format!("Table::recover: {e:?}"))?;

    let n = case.entries.len();
    // scan()
    {
        let mut it = table.scan().map_err(|e| format!("scan(): {e:?}"))?;
        for (i, e) in case.entries.iter().enumerate() {
            match it.next() {
                Some(Ok(got)) if eq_item(&got, e, g) => {}
                Some(Ok(got)) => return Err(format!("scan() item {i}: got {:?} expected {}", got.key, desc(e))),
                Some(Err(er)) => return Err(format!("scan() item {i}: Err {er:?}")),
                None => return Err(format!("scan() ended after {i} of {n} items")),
            }
        }
        if it.next().is_some() {
            return Err("scan() yielded more items than were written".into());
        }
    }
    // iter() forward and reverse
    {
        let mut it = table.iter();
        for (i, e) in case.entries.iter().enumerate() {
            match it.next() {
                Some(Ok(got)) if eq_item(&got, e, g) => {}
                Some(Ok(got)) => return Err(format!("iter() item {i}: got {:?} expected {}", got.key, desc(e))),
                Some(Err(er)) => return Err(format!("iter() item {i}: Err {er:?}")),
                None => return Err(format!("iter() ended after {i} of {n} items")),
            }
        }
        if it.next().is_some() {
            return Err("iter() yielded more items than were written".into());
        }
        let mut it = table.iter().rev();
        for (i, e) in case.entries.iter().rev().enumerate() {
            match it.next() {
                Some(Ok(got)) if eq_item(&got, e, g) => {}
                Some(Ok(got)) => return Err(format!("iter().rev() item {i}: got {:?} expected {}", got.key, desc(e))),
                Some(Err(er)) => return Err(format!("iter().rev() item {i}: Err {er:?}")),
                None => return Err(format!("iter().rev() ended after {i} of {n} items")),
            }
        }
        if it.next().is_some() {
            return Err("iter().rev() yielded more items than were written".into());
        }
    }
    // distinct keys
    let mut keys: Vec<&Vec<u8>> = case.entries.iter().map(|e| &e.key).collect();
    keys.dedup();
    // ranges
    for (lo, lk, hi, hk, pops) in &case.ranges {
        let mk = |idx: u16, kind: u8| -> Bound<Vec<u8>> {
            let k = keys[crate::spec::key_index(idx, keys.len())].clone();
            match kind {
                0 => Bound::Unbounded,
                1 => Bound::Included(k),
                2 => Bound::Excluded(k),
                3 => {
                    let mut k = k;
                    k.push(0);
                    Bound::Included(k)
                }
                4 => {
                    let mut k = k;
                    if k.len() > 1 {
                        k.pop();
                    }
                    Bound::Excluded(k)
                }
                _ => {
                    let mut k = k;
                    k.push(0xFF);
                    Bound::Excluded(k)
                }
            }
        };
        let lo = mk(*lo, *lk);
        let hi = mk(*hi, *hk);
        let exp: Vec<&TEntry> = case
            .entries
            .iter()
            .filter(|e| crate::exec::in_bounds(&e.key, &lo, &hi))
            .collect();
        let conv = |b: &Bound<Vec<u8>>| -> Bound<Slice> {
            match b {
                Bound::Unbounded => Bound::Unbounded,
                Bound::Included(k) => Bound::Included(Slice::from(k.as_slice())),
                Bound::Excluded(k) => Bound::Excluded(Slice::from(k.as_slice())),
            }
        };
        // an inverted range is outside what RangeBounds callers pass to a table (the tree filters
        // them out by key-range overlap first); keep lo <= hi
        let inverted = match (&lo, &hi) {
            (Bound::Included(a) | Bound::Excluded(a), Bound::Included(b) | Bound::Excluded(b)) => a > b,
            _ => false,
        };
        if inverted {
            stats.bump("t.range_inverted");
        }
        let mut it = table.range((conv(&lo), conv(&hi)));
        let mut f = 0usize;
        let mut b = exp.len();
        let what = format!("range({lo:?},{hi:?})");
        let mut step = |front: bool, f: &mut usize, b: &mut usize| -> Result<bool, String> {
            let got = if front { it.next() } else { it.next_back() };
            let e = if *f < *b {
                Some(if front { exp[*f] } else { exp[*b - 1] })
            } else {
                None
            };
            match (got, e) {
                (None, None) => Ok(false),
                (Some(Ok(got)), Some(e)) if eq_item(&got, e, g) => {
                    if front {
                        *f += 1
                    } else {
                        *b -= 1
                    }
                    Ok(true)
                }
                (Some(Ok(got)), Some(e)) => Err(format!(
                    "{what} {}: got {:?} expected {}",
                    if front { "next" } else { "next_back" },
                    got.key,
                    desc(e)
                )),
                (Some(Ok(got)), None) => Err(format!("{what}: extra item {:?}", got.key)),
                (Some(Err(er)), _) => Err(format!("{what}: Err {er:?}")),
                (None, Some(e)) => Err(format!("{what}: ended early, expected {}", desc(e))),
            }
        };
        let mut alive = true;
        for p in pops {
            if !step(*p, &mut f, &mut b)? {
                alive = false;
                break;
            }
        }
        if alive {
            while step(true, &mut f, &mut b)? {}
        }
        stats.bump("t.ranges");
    }
    // point reads
    let mut idx = 0;
    let mut probes = 0u64;
    while idx < n {
        let key = &case.entries[idx].key;
        let mut end = idx;
        while end < n && &case.entries[end].key == key {
            end += 1;
        }
        let versions = &case.entries[idx..end];
        let hash = Bloom::get_hash(key);
        let mut snaps: Vec<SeqNo> = vec![0, SeqNo::MAX];
        for v in versions {
            snaps.push(v.seqno + g);
            snaps.push(v.seqno + g + 1);
        }
        snaps.sort_unstable();
        snaps.dedup();
        // bound the cost for keys with many versions in big tables
        let stride = if n > 1500 { 3 } else { 1 };
        for (si, s) in snaps.iter().enumerate() {
            if si % stride != 0 && *s != SeqNo::MAX {
                continue;
            }
            let exp = versions.iter().find(|v| v.seqno + g < *s);
            let got = table
                .get(key, *s, hash)
                .map_err(|e| format!("get({}, {s}): Err {e:?}", hex(key)))?;
            probes += 1;
            match (got, exp) {
                (None, None) => {}
                (Some(got), Some(e)) if eq_item(&got, e, g) => {}
                (got, exp) => {
                    return Err(format!(
                        "get({}, {s}) = {:?}, expected {}",
                        hex(key),
                        got.map(|g| format!("{:?}", g.key)),
                        exp.map(desc).unwrap_or("None".into())
                    ))
                }
            }
        }
        // absent neighbours
        for nb in [
            {
                let mut k = key.clone();
                k.push(0);
                k
            },
            {
                let mut k = key.clone();
                if k.len() > 1 {
                    k.pop();
                }
                k
            },
        ] {
            if case.entries.binary_search_by(|e| e.key.cmp(&nb)).is_err() {
                let got = table
                    .get(&nb, SeqNo::MAX, Bloom::get_hash(&nb))
                    .map_err(|e| format!("get(absent {}): Err {e:?}", hex(&nb)))?;
                if let Some(got) = got {
                    return Err(format!("get of absent key {} returned {:?}", hex(&nb), got.key));
                }
            }
        }
        idx = end;
    }
    stats.add("t.probes", probes);
    // metadata
    let m = &table.metadata;
    let tomb = case.entries.iter().filter(|e| e.ty == 1 || e.ty == 2).count() as u64;
    let weak = case.entries.iter().filter(|e| e.ty == 2).count() as u64;
    let reclaim = case
        .entries
        .windows(2)
        .filter(|w| w[0].key == w[1].key && w[0].ty == 2 && w[1].ty == 0)
        .count() as u64;
    let hi = case.entries.iter().map(|e| e.seqno).max().unwrap_or(0) + g;
    if m.item_count != n as u64 {
        return Err(format!("metadata item_count {} != {n}", m.item_count));
    }
    if table.tombstone_count() != tomb {
        return Err(format!("metadata tombstone_count {} != {tomb}", table.tombstone_count()));
    }
    if table.weak_tombstone_count() != weak {
        return Err(format!("metadata weak_tombstone_count {} != {weak}", table.weak_tombstone_count()));
    }
    if table.weak_tombstone_reclaimable() != reclaim {
        return Err(format!(
            "metadata weak_tombstone_reclaimable {} != {reclaim}",
            table.weak_tombstone_reclaimable()
        ));
    }
    if table.get_highest_seqno() != hi {
        return Err(format!("get_highest_seqno {} != {hi}", table.get_highest_seqno()));
    }
    if m.key_range.min().as_ref() != case.entries[0].key.as_slice()
        || m.key_range.max().as_ref() != case.entries[n - 1].key.as_slice()
    {
        return Err("metadata key_range differs from first/last key".into());
    }
    // classification
    if m.data_block_count >= 3 {
        stats.bump("t.3blocks");
    }
    if m.index_block_count >= 2 {
        stats.bump("t.2index_partitions");
    }
    let big = case
        .entries
        .iter()
        .any(|e| (e.key.len() + e.vlen as usize) as u32 > case.block_size);
    if big {
        stats.bump("t.entry_larger_than_block");
    }
    if case.entries.windows(2).any(|w| w[0].key == w[1].key) {
        stats.bump("t.multi_version");
    }
    if g > 0 {
        stats.bump("t.global_seqno");
    }
    if n > 254 {
        stats.bump("t.over254");
    }
    Ok(stats)
}

pub fn nontrivial(s: &Stats) -> bool {
    s.get("t.3blocks") > 0
        && s.get("t.multi_version") > 0
        && (s.get("t.entry_larger_than_block") > 0 || s.get("t.2index_partitions") > 0)
}
