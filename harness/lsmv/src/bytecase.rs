//! Byte-level decoders for the libFuzzer targets (E5): bytes -> structured case, written by hand.
//!
//! proptest's pass-through RNG cannot be used for this: every `prop_oneof!` that picks a non-first
//! alternative forks the RNG for its lazily generated siblings, which halves the remaining input; after a
//! dozen picks the input is used up, the RNG yields zeros, and rand's unbiased integer sampling rejects an
//! all-zero draw forever. Here every field is read from the next byte(s) of the input, so a local mutation
//! of the input is a local mutation of the case, and an exhausted input simply ends the op list.
//! The decoders produce the same case types, in the same input domains, as the proptest strategies in
//! `gen.rs` / `tablecheck.rs`; the interpreter, the model and the auditors are shared.

use crate::gen::{BlobMode, GenProfile};
use crate::spec::*;
use crate::tablecheck::{TEntry, TableCase};

pub struct U<'a> {
    d: &'a [u8],
    i: usize,
}

impl<'a> U<'a> {
    pub fn new(d: &'a [u8]) -> Self {
        Self { d, i: 0 }
    }
    pub fn done(&self) -> bool {
        self.i >= self.d.len()
    }
    pub fn u8(&mut self) -> u8 {
        let b = self.d.get(self.i).copied().unwrap_or(0);
        self.i += 1;
        b
    }
    pub fn u16(&mut self) -> u16 {
        u16::from_le_bytes([self.u8(), self.u8()])
    }
    pub fn u32(&mut self) -> u32 {
        u32::from_le_bytes([self.u8(), self.u8(), self.u8(), self.u8()])
    }
    pub fn bool(&mut self) -> bool {
        self.u8() & 1 == 1
    }
    /// 0..n (monotone in the byte)
    pub fn below(&mut self, n: usize) -> usize {
        if n <= 1 {
            return 0;
        }
        if n <= 256 {
            (self.u8() as usize * n) >> 8
        } else {
            (self.u16() as usize * n) >> 16
        }
    }
    pub fn range(&mut self, lo: usize, hi_excl: usize) -> usize {
        lo + self.below(hi_excl.saturating_sub(lo))
    }
    pub fn pick<T: Clone>(&mut self, xs: &[T]) -> T {
        xs[self.below(xs.len())].clone()
    }
    /// weighted choice: index into `w`
    pub fn weighted(&mut self, w: &[u32]) -> usize {
        let total: u32 = w.iter().sum();
        if total == 0 {
            return 0;
        }
        let x = if total <= 256 {
            (self.u8() as u32 * total) >> 8
        } else {
            ((self.u16() as u64 * total as u64) >> 16) as u32
        };
        let mut acc = 0;
        for (i, wi) in w.iter().enumerate() {
            acc += wi;
            if x < acc {
                return i;
            }
        }
        w.len() - 1
    }
    pub fn bytes(&mut self, n: usize) -> Vec<u8> {
        (0..n).map(|_| self.u8()).collect()
    }
}

fn policy<T: Clone>(u: &mut U, mut elem: impl FnMut(&mut U) -> T) -> Vec<T> {
    let n = if u.weighted(&[3, 2]) == 0 { 1 } else { u.range(2, 5) };
    (0..n).map(|_| elem(u)).collect()
}

fn blob_spec(u: &mut U) -> BlobSpec {
    BlobSpec {
        threshold: [0u32, 1, 1, 1, 8, 8, 8, 64, 64, 64, 1024, 1024, 1024][u.below(13)],
        target: u.pick(&[1u64, 256, 4096, 64 << 20]),
        staleness: u.pick(&[0.000_001f32, 0.1, 0.5, 0.9]),
        age_cutoff: u.pick(&[0.25f32, 0.5, 1.0]),
        lz4: u.bool(),
    }
}

fn cfg_spec(u: &mut U, blob: BlobMode, tiny: bool) -> CfgSpec {
    let blob = match blob {
        BlobMode::Never => None,
        BlobMode::Always => Some(blob_spec(u)),
        BlobMode::Either => {
            if u.bool() {
                Some(blob_spec(u))
            } else {
                None
            }
        }
    };
    let bs: &[u32] = if tiny {
        &[1, 1, 1, 64, 64, 64, 128, 128, 512, 4096]
    } else {
        &[1, 1, 64, 64, 128, 128, 512, 512, 4096, 4096, 4096, 65_536]
    };
    CfgSpec {
        blob,
        block_size: policy(u, |u| u.pick(bs)),
        restart: policy(u, |u| match u.weighted(&[2, 2, 2, 3, 1]) {
            0 => 1,
            1 => 2,
            2 => 3,
            3 => 16,
            _ => u.u8().max(1),
        }),
        hash_ratio: policy(u, |u| [0.0f32, 0.0, 0.0, 0.5, 1.0, 4.0, 8.0][u.below(7)]),
        index_part: policy(u, |u| u.bool()),
        filter_part: policy(u, |u| u.bool()),
        pin_index: policy(u, |u| u.bool()),
        pin_filter: policy(u, |u| u.bool()),
        filter: policy(u, |u| match u.weighted(&[2, 1, 4, 2]) {
            0 => FilterSpec::None,
            1 => FilterSpec::Bpk(0.0),
            2 => FilterSpec::Bpk(u.range(1, 20) as f32),
            _ => FilterSpec::Fpr(u.pick(&[0.5f32, 0.1, 0.01, 0.0001])),
        }),
        expect_hits: u.weighted(&[4, 1]) == 1,
        data_lz4: policy(u, |u| u.bool()),
        index_lz4: policy(u, |u| u.bool()),
        cache_bytes: u.pick(&[0u64, 4096, 16 << 20]),
        fd_table: u.pick(&[None, Some(1usize), Some(2), Some(256)]),
    }
}

/// pseudo-random bytes from a one-byte seed (keeps the input short: a key costs two bytes)
fn derived(seed: u8, n: usize) -> Vec<u8> {
    let mut x = (seed as u64 + 1).wrapping_mul(0x9E37_79B9_7F4A_7C15);
    (0..n)
        .map(|_| {
            x ^= x << 13;
            x ^= x >> 7;
            x ^= x << 17;
            (x >> 24) as u8
        })
        .collect()
}

fn key_pool(u: &mut U, min: usize, max: usize) -> Vec<Vec<u8>> {
    let prefix: Vec<u8> = match u.weighted(&[6, 4, 2, 1]) {
        0 => vec![],
        1 => {
            let n = u.range(1, 4);
            let b = u.u8();
            (0..n)
                .map(|i| match (b as usize + i * 3) % 5 {
                    0 => b'a',
                    1 => b'k',
                    2 => 0,
                    3 => 0xFF,
                    _ => b,
                })
                .collect()
        }
        2 => {
            let n = u.range(4, 40);
            derived(u.u8(), n)
        }
        _ => {
            let n = u.range(100, 200);
            let b = u.u8();
            (0..n).map(|i| if i % 7 == 3 { b } else { b'p' }).collect()
        }
    };
    let n = u.range(min, max + 1);
    let mut keys: Vec<Vec<u8>> = (0..n)
        .map(|_| {
            let mut k = prefix.clone();
            let sel = u.u8();
            let seed = u.u8();
            match (sel as usize * 10) >> 8 {
                0..=4 => {
                    // 0..3 bytes out of {0,'a','b',0xFF}
                    let m = (sel & 3) as usize;
                    for i in 0..m {
                        k.push([0u8, b'a', b'b', 0xFF][((seed >> (2 * i)) & 3) as usize]);
                    }
                }
                5..=8 => k.extend(derived(seed, 1 + (sel & 7) as usize)),
                _ => {
                    let m = 40 + (sel as usize & 0x1F) * 11;
                    k.extend((0..m).map(|i| if i % 5 == 0 { seed } else { b'x' }));
                }
            }
            if k.is_empty() {
                k.push(b'a');
            }
            k
        })
        .collect();
    if u.weighted(&[9, 1]) == 1 {
        let m = u.range(1500, 6000);
        let b = u.u8();
        let mut k = prefix.clone();
        k.extend(std::iter::repeat(b).take(m));
        keys.push(k);
    }
    keys.sort();
    keys.dedup();
    if keys.len() < 4 {
        for extra in [vec![b'a'], vec![b'a', 0xFF], vec![b'a', 0xFF, 0xFF], vec![0xFF], vec![0xFF, 0xFF, 0]] {
            let mut k = prefix.clone();
            k.extend_from_slice(&extra);
            keys.push(k);
        }
        keys.sort();
        keys.dedup();
    }
    keys
}

fn big_pool(u: &mut U) -> Vec<Vec<u8>> {
    let p: Vec<u8> = match u.below(3) {
        0 => vec![],
        1 => vec![b'k'],
        _ => {
            let n = u.range(1, 4);
            u.bytes(n)
        }
    };
    let n = u.range(300, 1400);
    let step = u.pick(&[1usize, 3, 7]);
    (0..n)
        .map(|i| {
            let mut k = p.clone();
            k.extend_from_slice(&((i * step) as u16).to_be_bytes());
            k
        })
        .collect()
}

fn wkind(u: &mut U, weak: bool, big: bool) -> WKind {
    let w: &[u32] = if weak { &[6, 2, 3] } else { &[6, 2] };
    match u.weighted(w) {
        0 => WKind::Put(len_class(u, big)),
        1 => WKind::Del,
        _ => WKind::WeakDel,
    }
}

fn len_class(u: &mut U, big: bool) -> u8 {
    if big && u.weighted(&[8, 1]) == 1 {
        240 + u.below(16) as u8
    } else {
        u.below(240) as u8
    }
}

fn wm(u: &mut U) -> u16 {
    match u.weighted(&[2, 5, 3]) {
        0 => 0,
        1 => u16::MAX,
        _ => u.u16(),
    }
}

fn bound(u: &mut U) -> BoundSpec {
    if u.weighted(&[1, 5]) == 0 {
        BoundSpec::Unbounded
    } else {
        BoundSpec::Key {
            k: u.u16(),
            variant: u.below(4) as u8,
            incl: u.bool(),
        }
    }
}

fn pops(u: &mut U, max: usize) -> Vec<bool> {
    let n = u.below(max);
    (0..n).map(|_| u.bool()).collect()
}

fn scan_spec(u: &mut U, weak: bool) -> ScanSpec {
    ScanSpec {
        prefix: if u.weighted(&[3, 2]) == 0 {
            None
        } else {
            Some((
                u.u16(),
                match u.weighted(&[4, 1, 1]) {
                    0 => u.u8(),
                    1 => 255,
                    _ => 254,
                },
            ))
        },
        lo: bound(u),
        hi: bound(u),
        snap: match u.weighted(&[3, 1, 3]) {
            0 => 0,
            1 => 1,
            _ => u.range(2, 8) as u8,
        },
        pops: pops(u, 24),
        drain_front: u.bool(),
        overlay: if u.weighted(&[3, 1]) == 0 {
            vec![]
        } else {
            let n = u.range(1, 6);
            (0..n).map(|_| (u.u16(), wkind(u, weak, false))).collect()
        },
        accessor: [0u8, 0, 0, 0, 1, 2][u.below(6)],
    }
}

fn tl(u: &mut U, tiny: bool) -> u8 {
    let w: &[u32] = if tiny { &[4, 3, 1] } else { &[2, 3, 3] };
    match u.weighted(w) {
        0 => u.below(8) as u8,
        1 => u.range(8, 13) as u8,
        _ => u.range(13, 27) as u8,
    }
}

fn op(u: &mut U, p: &GenProfile) -> Op {
    let w = &p.w;
    let weak = p.weak_keys_max > 0;
    let big = p.big_values;
    let weights = [
        w.insert,
        w.remove,
        w.remove_weak,
        w.batch,
        w.fill,
        w.rotate,
        w.flush,
        w.flush_active,
        w.leveled,
        w.major,
        w.movedown,
        w.pulldown,
        w.reopen,
        w.snap_open,
        w.snap_release,
        w.ingest,
        w.drop_range,
        w.clear,
        w.scan,
        w.iter_open,
        w.iter_step,
        w.swapped,
    ];
    match u.weighted(&weights) {
        0 => Op::Insert {
            k: u.u16(),
            len: len_class(u, big),
        },
        1 => Op::Remove { k: u.u16() },
        2 => Op::RemoveWeak { k: u.u16() },
        3 => {
            let n = u.range(1, 6);
            Op::Batch {
                items: (0..n).map(|_| (u.u16(), wkind(u, weak, big))).collect(),
            }
        }
        4 => Op::Fill {
            start: u.u16(),
            n: match u.weighted(&[3, 2, 1, 2]) {
                0 => u.range(2, 40) as u16,
                1 => u.range(40, 400) as u16,
                2 => u.range(400, 1500) as u16,
                _ => u.pick(&[254u16, 255, 256, 257, 508, 510, 512]),
            },
            len: match u.weighted(&[3, 2, 1]) {
                0 => 16,
                1 => 0,
                _ => u.below(240) as u8,
            },
            del: u.weighted(&[17, 3]) == 1,
            one_seqno: u.bool(),
        },
        5 => Op::Rotate,
        6 => Op::Flush { wm: wm(u) },
        7 => Op::FlushActive { wm: wm(u) },
        8 => Op::Leveled {
            l0: u.range(1, 9) as u8,
            target_log2: tl(u, p.tiny),
            ratio_x10: u.range(10, 101) as u8,
            wm: wm(u),
        },
        9 => Op::Major {
            target_log2: if u.weighted(&[3, 1]) == 0 { tl(u, p.tiny) } else { 64 },
            wm: wm(u),
        },
        10 => Op::MoveDown { pair: u.u8(), wm: wm(u) },
        11 => Op::PullDown { pair: u.u8(), wm: wm(u) },
        12 => Op::Reopen {
            cfg: u.u8(),
            restart_counters: u.bool(),
        },
        13 => Op::SnapOpen,
        14 => Op::SnapRelease { slot: u.u8() },
        15 => {
            let n = u.below(12);
            let entries = (0..n).map(|_| (u.u16(), wkind(u, weak, big))).collect();
            let pre_writes = if u.weighted(&[3, 1]) == 0 {
                vec![]
            } else {
                let m = u.range(1, 4);
                (0..m).map(|_| (u.u16(), wkind(u, weak, false))).collect()
            };
            Op::Ingest { entries, pre_writes }
        }
        16 => Op::DropRange { lo: bound(u), hi: bound(u) },
        17 => Op::Clear,
        18 => Op::Scan(scan_spec(u, weak)),
        21 => Op::Swapped {
            a: u.u16(),
            b: u.u16(),
            len: u.below(240) as u8,
        },
        19 => Op::IterOpen {
            lo: bound(u),
            hi: bound(u),
            snap: match u.weighted(&[3, 2, 2]) {
                0 => 0,
                1 => 1,
                _ => u.range(2, 8) as u8,
            },
        },
        _ => {
            if u.weighted(&[3, 1]) == 0 {
                let n = u.range(1, 5);
                Op::IterStep {
                    slot: u.u8(),
                    pops: (0..n).map(|_| u.bool()).collect(),
                }
            } else {
                Op::IterClose {
                    slot: u.u8(),
                    front: u.bool(),
                }
            }
        }
    }
}

/// bytes -> history case, in the input domain of `gen::case(p)`
pub fn decode_case(p: &GenProfile, data: &[u8]) -> Case {
    let mut u = U::new(data);
    let big = p.big_pool_pct > 0 && (u.u8() as u32 * 100) >> 8 < p.big_pool_pct.max(8);
    let keys = if big { big_pool(&mut u) } else { key_pool(&mut u, p.min_keys, p.max_keys) };
    let mut cfgs: Vec<CfgSpec> = (0..p.n_cfgs.max(1)).map(|_| cfg_spec(&mut u, p.blob, p.tiny)).collect();
    let b0 = cfgs[0].blob.clone();
    for c in cfgs.iter_mut().skip(1) {
        match (&b0, &mut c.blob) {
            (None, Some(_)) => c.blob = None,
            (Some(b), None) => c.blob = Some(b.clone()),
            (Some(b), Some(cb)) => cb.lz4 = b.lz4,
            _ => {}
        }
    }
    let verdicts = if p.verdicts {
        let n = u.range(1, 8);
        (0..n)
            .map(|_| match u.weighted(&[3, 2, 1, 3, 1]) {
                0 => VerdictSpec::Keep,
                1 => VerdictSpec::Remove,
                2 => VerdictSpec::RemoveWeak,
                3 => VerdictSpec::Replace(u.u8()),
                _ => VerdictSpec::Destroy,
            })
            .collect()
    } else {
        vec![]
    };
    let weak_keys = u.below(p.weak_keys_max as usize + 1) as u16;
    let mut ops = vec![];
    while !u.done() && ops.len() < p.max_ops {
        ops.push(op(&mut u, p));
    }
    Case {
        keys,
        cfgs,
        ops,
        verdicts,
        weak_keys,
        multi_gen: p.multi_gen,
    }
}

/// bytes -> table case, in the input domain of `tablecheck::strategy`
pub fn decode_table_case(data: &[u8], max_entries: usize) -> TableCase {
    let mut u = U::new(data);
    let prefix: Vec<u8> = match u.weighted(&[5, 3, 2]) {
        0 => vec![],
        1 => {
            let n = u.range(1, 8);
            u.bytes(n)
        }
        _ => {
            let n = u.range(20, 200);
            let b = u.u8();
            (0..n).map(|i| if i % 6 == 1 { b } else { b'p' }).collect()
        }
    };
    let block_size = u.pick(&[1u32, 16, 64, 128, 300, 512, 1024, 4096, 4096, 16_384, 65_536]);
    let restart = match u.weighted(&[3, 2, 2, 3, 1]) {
        0 => 1,
        1 => 2,
        2 => 3,
        3 => 16,
        _ => u.u8().max(1),
    };
    let hash_ratio = [0.0f32, 0.0, 0.5, 1.0, 4.0, 8.0][u.below(6)];
    let meta_partition = u.pick(&[1u32, 16, 64, 256, 1024, 4096]);
    let part_index = u.bool();
    let part_filter = u.bool();
    let filter = match u.weighted(&[2, 1, 4, 2]) {
        0 => FilterSpec::None,
        1 => FilterSpec::Bpk(0.0),
        2 => FilterSpec::Bpk(u.range(1, 20) as f32),
        _ => FilterSpec::Fpr(u.pick(&[0.5f32, 0.1, 0.01, 0.0001])),
    };
    let data_lz4 = u.bool();
    let index_lz4 = u.bool();
    let pin_filter = u.bool();
    let pin_index = u.bool();
    let cache_bytes = u.pick(&[0u64, 16 << 20]);
    let fd = u.pick(&[None, Some(1usize), Some(10)]);
    let global_seqno = if u.weighted(&[2, 1]) == 0 { 0 } else { 1 + u.u16() as u64 };
    let nr = u.below(6);
    let ranges = (0..nr)
        .map(|_| (u.u16(), u.below(6) as u8, u.u16(), u.below(6) as u8, pops(&mut u, 16)))
        .collect();
    // keys until the input ends
    let mut keyset: std::collections::BTreeMap<Vec<u8>, Vec<(u64, u8, u32)>> = Default::default();
    let mut total = 0usize;
    while !u.done() && total < max_entries {
        let mut k = prefix.clone();
        match u.weighted(&[5, 5, 1, 1]) {
            0 => {
                let m = u.below(4);
                for _ in 0..m {
                    k.push(u.pick(&[0u8, b'a', b'b', 0xFF]));
                }
            }
            1 => {
                let m = u.range(1, 12);
                k.extend(u.bytes(m));
            }
            2 => {
                let m = u.range(12, 400);
                let b = u.u8();
                k.extend((0..m).map(|i| if i % 9 == 0 { b } else { b'y' }));
            }
            _ => {
                let m = u.range(400, 6000);
                let b = u.u8();
                k.extend(std::iter::repeat(b).take(m));
            }
        }
        if k.is_empty() {
            k.push(b'a');
        }
        let nv = u.range(1, 8);
        let vs = keyset.entry(k).or_default();
        for _ in 0..nv {
            let seq = if u.weighted(&[3, 1]) == 0 { u.u8() as u64 } else { u.u32() as u64 | ((u.u8() as u64 & 0x3F) << 32) };
            let ty = u.below(4) as u8;
            let vlen = match u.weighted(&[2, 8, 4, 1, 1]) {
                0 => 0,
                1 => u.range(1, 40) as u32,
                2 => u.range(40, 300) as u32,
                3 => u.range(300, 5000) as u32,
                _ => u.range(60_000, 70_000) as u32,
            };
            if !vs.iter().any(|x| x.0 == seq) {
                vs.push((seq, ty, vlen));
                total += 1;
            }
        }
    }
    let mut entries = vec![];
    for (k, mut vs) in keyset {
        vs.sort_by(|a, b| b.0.cmp(&a.0));
        for (seqno, ty, vlen) in vs {
            entries.push(TEntry {
                key: k.clone(),
                seqno,
                ty,
                vlen,
            });
        }
    }
    if entries.is_empty() {
        entries.push(TEntry {
            key: vec![b'a'],
            seqno: 1,
            ty: 0,
            vlen: 3,
        });
    }
    TableCase {
        entries,
        block_size,
        restart,
        hash_ratio,
        meta_partition,
        part_index,
        part_filter,
        filter,
        data_lz4,
        index_lz4,
        pin_filter,
        pin_index,
        cache_bytes,
        fd,
        global_seqno,
        ranges,
    }
}
