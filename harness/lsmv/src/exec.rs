//! Interpreter: applies abstract ops to a real tree and to the model, and audits reads.

use crate::cfg::{self, Shared};
use crate::model::{Expect, Kind, Loc, Model};
use crate::spec::*;
use lsm_tree::{
    AbstractTree, AnyTree, Guard, SeqNo, SequenceNumberCounter,
};
use std::collections::BTreeMap;
use std::ops::Bound;
use std::path::{Path, PathBuf};
use std::sync::{Arc, Mutex};

pub type Key = Vec<u8>;

#[derive(Debug, Clone)]
pub struct Failure {
    pub op_index: usize,
    pub what: String,
}

pub type R<T> = Result<T, String>;

thread_local! {
    /// key involved in the most recent oracle failure on this thread (for known-finding signatures)
    pub static LAST_FAIL_KEY: std::cell::RefCell<Option<Vec<u8>>> = const { std::cell::RefCell::new(None) };
}

pub fn note_fail_key(k: &[u8]) {
    LAST_FAIL_KEY.with(|c| *c.borrow_mut() = Some(k.to_vec()));
}

pub fn take_fail_key() -> Option<Vec<u8>> {
    LAST_FAIL_KEY.with(|c| c.borrow_mut().take())
}

#[derive(Default, Clone, Debug)]
pub struct Stats {
    pub ctr: BTreeMap<String, u64>,
}

impl Stats {
    pub fn bump(&mut self, k: &str) {
        *self.ctr.entry(k.to_string()).or_insert(0) += 1;
    }
    pub fn add(&mut self, k: &str, n: u64) {
        *self.ctr.entry(k.to_string()).or_insert(0) += n;
    }
    pub fn get(&self, k: &str) -> u64 {
        self.ctr.get(k).copied().unwrap_or(0)
    }
    pub fn merge(&mut self, o: &Stats) {
        for (k, v) in &o.ctr {
            *self.ctr.entry(k.clone()).or_insert(0) += v;
        }
    }
}

#[derive(Clone, Debug, PartialEq)]
pub struct SnapView {
    pub points: Vec<Option<Vec<u8>>>,
    pub scan: Vec<(Key, Vec<u8>)>,
    /// prefix scan (first byte of the middle pool key), consumed from the back
    pub pscan: Vec<(Key, Vec<u8>)>,
}

pub struct Snap {
    pub s: SeqNo,
    pub stored: Option<SnapView>,
    /// files the snapshot's version named when it was opened (paths only)
    pub files: Vec<PathBuf>,
    pub rereads_after_change: u64,
    pub installs_at_open: u64,
}

#[derive(Clone, Copy, Debug, Default)]
pub struct KState {
    pub writes_total: u32,
    pub inserts: u32,
    pub weak_dels: u32,
    pub present: bool,
}

/// Which audits run after every op
#[derive(Clone, Debug, Default)]
pub struct Audits {
    pub point: bool,
    pub point_deep: bool,
    pub scan_latest: bool,
    pub snapshots: bool,
    pub structure: bool,
    pub manifest: bool,
    pub blob_ptr: bool,
    pub gc_stats: bool,
    pub seqno_marks: bool,
    pub files: bool,
    pub absent_probes: bool,
}

pub struct FilterCall {
    pub key: Key,
    pub value: Vec<u8>,
    pub verdict: VerdictSpec,
    pub replacement: Option<Vec<u8>>,
    pub is_last_level: bool,
}

pub struct LiveIter {
    pub s: SeqNo,
    pub it: Box<dyn DoubleEndedIterator<Item = lsm_tree::IterGuardImpl> + Send>,
    pub exp: Vec<(Key, Vec<u8>)>,
    pub f: usize,
    pub b: usize,
    pub desc: String,
    pub installs_at_open: u64,
    /// opened at SeqNo::MAX: not a stable snapshot (the shared active memtable keeps receiving writes), so
    /// its items are only checked for being Ok, ordered and written-for-that-key (no order or completeness demand); it does not bound the GC
    /// watermark, but the files of the version it was opened on must stay on disk while it lives (C20)
    pub unpinned: bool,
    pub files: Vec<PathBuf>,
    pub last_front: Option<Key>,
    pub last_back: Option<Key>,
}

pub struct Exec {
    /// long-lived iterators (declared first: dropped before the tree)
    pub iters: Vec<LiveIter>,
    pub dir: PathBuf,
    pub tree: Option<AnyTree>,
    pub seqno: SequenceNumberCounter,
    pub visible: SequenceNumberCounter,
    pub shared: Arc<Shared>,
    pub cfgs: Vec<CfgSpec>,
    pub cfg_idx: usize,
    pub keys: Vec<Key>,
    pub probes: Vec<Key>,
    pub model: Model,
    pub snaps: Vec<Snap>,
    pub kstate: Vec<KState>,
    pub weak_keys: usize,
    pub multi_gen: bool,
    pub weak_as_strong: bool,
    pub stats: Stats,
    pub wcount: u64,
    pub audits: Audits,
    pub op_no: usize,
    pub installs: u64,
    pub installs_at_open: u64,
    pub last_wm: SeqNo,
    pub verdicts: Vec<VerdictSpec>,
    pub filter_log: Arc<Mutex<Vec<FilterCall>>>,
    /// set when a reopen happened: model of what must be durable is checked there
    pub reopen_count: u64,
    pub max_snaps: usize,
    /// virtual clock offset (C19)
    pub clock_secs: u64,
    /// model states an interrupted multi-step op may legitimately leave behind (C05): set by the
    /// last op, e.g. ingestion = flush of the memtables, then publication of the batch
    pub mid_models: Vec<Model>,
    /// a version was installed since the last full point audit (big pools are sampled otherwise)
    pub layout_changed: bool,
    /// the last op ran a merging compaction to completion (both merge flavours drop dead blob files)
    pub merge_happened: bool,
    /// blob files of the version that had no reference left at the previous audit (C09)
    pub dead_blob_files: Vec<u64>,
}

pub fn resolve_bound(keys: &[Key], b: &BoundSpec) -> Bound<Key> {
    match b {
        BoundSpec::Unbounded => Bound::Unbounded,
        BoundSpec::Key { k, variant, incl } => {
            let base = &keys[key_index(*k, keys.len())];
            let mut key = base.clone();
            match variant % 4 {
                0 => {}
                1 => key.push(0),
                2 => {
                    if key.len() > 1 {
                        key.pop();
                    }
                }
                _ => {
                    // increment with carry; if all 0xFF append 0xFF
                    let mut done = false;
                    for i in (0..key.len()).rev() {
                        if key[i] != 0xFF {
                            key[i] += 1;
                            key.truncate(i + 1);
                            done = true;
                            break;
                        }
                    }
                    if !done {
                        key.push(0xFF);
                    }
                }
            }
            if *incl {
                Bound::Included(key)
            } else {
                Bound::Excluded(key)
            }
        }
    }
}

pub fn in_bounds(k: &[u8], lo: &Bound<Key>, hi: &Bound<Key>) -> bool {
    (match lo {
        Bound::Unbounded => true,
        Bound::Included(b) => k >= b.as_slice(),
        Bound::Excluded(b) => k > b.as_slice(),
    }) && (match hi {
        Bound::Unbounded => true,
        Bound::Included(b) => k <= b.as_slice(),
        Bound::Excluded(b) => k < b.as_slice(),
    })
}

const PAIRS: [(u8, u8); 21] = [
    (0, 6),
    (0, 1),
    (1, 2),
    (0, 2),
    (2, 3),
    (0, 3),
    (1, 3),
    (3, 4),
    (0, 4),
    (0, 5),
    (4, 5),
    (5, 6),
    (1, 6),
    (2, 6),
    (3, 6),
    (4, 6),
    (1, 4),
    (1, 5),
    (2, 4),
    (2, 5),
    (3, 5),
];

pub fn level_pair(code: u8) -> (u8, u8) {
    PAIRS[(code as usize * PAIRS.len()) >> 8]
}

impl Exec {
    pub fn new(dir: &Path, case: &Case, audits: Audits, shared: Option<Arc<Shared>>) -> Self {
        let shared = shared.unwrap_or_else(|| Arc::new(Shared::from_spec(&case.cfgs[0])));
        let mut probes = vec![];
        for k in &case.keys {
            let mut a = k.clone();
            a.push(0);
            if !case.keys.contains(&a) && !probes.contains(&a) {
                probes.push(a);
            }
            if k.len() > 1 {
                let b = k[..k.len() - 1].to_vec();
                if !case.keys.contains(&b) && !probes.contains(&b) {
                    probes.push(b);
                }
            }
        }
        probes.truncate(24);
        Self {
            iters: vec![],
            dir: dir.to_path_buf(),
            tree: None,
            seqno: SequenceNumberCounter::default(),
            visible: SequenceNumberCounter::default(),
            shared,
            cfgs: case.cfgs.clone(),
            cfg_idx: 0,
            keys: case.keys.clone(),
            probes,
            model: Model::default(),
            snaps: vec![],
            kstate: vec![KState::default(); case.keys.len()],
            weak_keys: (case.weak_keys as usize).min(case.keys.len()),
            multi_gen: case.multi_gen,
            weak_as_strong: false,
            stats: Stats::default(),
            wcount: 0,
            audits,
            op_no: 0,
            installs: 0,
            installs_at_open: 0,
            last_wm: 0,
            verdicts: case.verdicts.clone(),
            filter_log: Arc::new(Mutex::new(vec![])),
            reopen_count: 0,
            max_snaps: 6,
            clock_secs: 0,
            mid_models: vec![],
            layout_changed: true,
            merge_happened: false,
            dead_blob_files: vec![],
        }
    }

    pub fn tree(&self) -> &AnyTree {
        self.tree.as_ref().expect("tree open")
    }

    pub fn open(&mut self) -> R<()> {
        let filter = crate::filter::factory(&self.verdicts, self.filter_log.clone(), self.blob_threshold());
        let cfg = cfg::build(
            &self.cfgs[self.cfg_idx],
            &self.dir,
            self.seqno.clone(),
            self.visible.clone(),
            &self.shared,
            filter,
        );
        let t = cfg.open().map_err(|e| format!("Config::open failed: {e:?}"))?;
        self.tree = Some(t);
        Ok(())
    }

    pub fn blob_threshold(&self) -> Option<u32> {
        self.cfgs[self.cfg_idx].blob.as_ref().map(|b| b.threshold)
    }

    pub fn is_blob(&self) -> bool {
        self.cfgs[self.cfg_idx].blob.is_some()
    }

    pub fn make_value(&mut self, kidx: usize, class: u8) -> Vec<u8> {
        let len = value_len(class);
        self.wcount += 1;
        let mut v = Vec::with_capacity(len);
        let hdr = [
            (kidx & 0xFF) as u8,
            ((kidx >> 8) & 0xFF) as u8,
            (self.wcount & 0xFF) as u8,
            ((self.wcount >> 8) & 0xFF) as u8,
            ((self.wcount >> 16) & 0xFF) as u8,
            ((self.wcount >> 24) & 0xFF) as u8,
        ];
        for i in 0..len {
            if i < 6 {
                v.push(hdr[i]);
            } else {
                v.push(((self.wcount as usize + i / 24) & 0xFF) as u8);
            }
        }
        v
    }

    /// Largest legal GC watermark right now
    pub fn max_wm(&self) -> SeqNo {
        match self.snaps.iter().map(|s| s.s).chain(self.iters.iter().filter(|i| !i.unpinned).map(|i| i.s)).min() {
            Some(m) => m.saturating_sub(1),
            None => self.visible.get(),
        }
    }

    pub fn wm(&self, frac: u16) -> SeqNo {
        let max = self.max_wm();
        if frac >= 60_000 && self.snaps.is_empty() && self.iters.iter().all(|i| i.unpinned) {
            // nobody holds a view: any watermark is within the usage protocol, including one above
            // every version change so far and the one this call makes itself (tests use 1_000 etc.)
            return self.visible.get() + 1_000_000;
        }
        if frac < 8192 {
            0
        } else if frac >= 36_000 {
            max
        } else {
            ((max as u128 * (frac as u128 - 8192)) / (36_000 - 8192)) as SeqNo
        }
    }

    fn note_wm(&mut self, t: SeqNo) {
        if t > self.last_wm {
            self.last_wm = t;
        }
    }

    /// decide whether a write of `kind` to key `kidx` respects the key's discipline; returns the
    /// effective kind to apply (None = skip)
    fn admit(&mut self, kidx: usize, kind: &WKind) -> Option<WKind> {
        let weak = kidx < self.weak_keys;
        let st = &mut self.kstate[kidx];
        match kind {
            WKind::Put(c) => {
                if weak {
                    if st.present || (!self.multi_gen && st.inserts > 0) {
                        return None;
                    }
                }
                st.writes_total += 1;
                st.inserts += 1;
                st.present = true;
                Some(WKind::Put(*c))
            }
            WKind::Del => {
                if weak {
                    return None;
                }
                st.writes_total += 1;
                st.present = false;
                Some(WKind::Del)
            }
            WKind::WeakDel => {
                if !weak || !st.present {
                    return None;
                }
                st.writes_total += 1;
                st.present = false;
                st.weak_dels += 1;
                Some(WKind::WeakDel)
            }
        }
    }

    fn apply_write(&mut self, kidx: usize, kind: WKind, seqno: SeqNo) {
        let key = self.keys[kidx].clone();
        let t = self.tree.as_ref().expect("open");
        match kind {
            WKind::Put(c) => {
                let v = self.make_value(kidx, c);
                let t = self.tree.as_ref().expect("open");
                let _ = t.insert(key.clone(), v.clone(), seqno);
                self.model.put(&key, seqno, Kind::Val(v), Loc::Active, false);
                self.stats.bump("w.insert");
            }
            WKind::Del => {
                let _ = t.remove(key.clone(), seqno);
                self.model.put(&key, seqno, Kind::Tomb, Loc::Active, false);
                self.stats.bump("w.remove");
            }
            WKind::WeakDel => {
                if self.weak_as_strong {
                    let _ = t.remove(key.clone(), seqno);
                } else {
                    let _ = t.remove_weak(key.clone(), seqno);
                }
                self.model
                    .put(&key, seqno, Kind::WeakTomb, Loc::Active, false);
                self.stats.bump("w.remove_weak");
            }
        }
    }

    fn single_write(&mut self, k: u16, kind: WKind) {
        let kidx = key_index(k, self.keys.len());
        if let Some(kind) = self.admit(kidx, &kind) {
            let s = self.seqno.next();
            self.apply_write(kidx, kind, s);
            self.visible.fetch_max(s + 1);
        } else {
            self.stats.bump("skip.discipline");
        }
    }

    fn levels_summary(&self) -> Vec<(usize, usize)> {
        // (runs, tables) per level
        let v = self.tree().current_version();
        v.iter_levels()
            .map(|l| (l.run_count(), l.table_count()))
            .collect()
    }

    fn maint<F: FnOnce(&AnyTree) -> lsm_tree::Result<()>>(&mut self, name: &str, f: F) -> R<u64> {
        let before = self.seqno.get();
        let r = f(self.tree());
        let after = self.seqno.get();
        r.map_err(|e| format!("{name} returned Err: {e:?}"))?;
        if !self.verdicts.is_empty() {
            self.apply_filter_log(before)?;
        }
        let n = after - before;
        self.installs += n;
        if n > 0 {
            self.layout_changed = true;
        }
        if n > 0 {
            self.stats.bump(&format!("installs.{name}"));
        }
        Ok(n)
    }

    /// Fold the calls the compaction filter logged during the last maintenance op into the model.
    /// `v` is the seqno of the version that op published.
    fn apply_filter_log(&mut self, v: SeqNo) -> R<()> {
        let calls: Vec<FilterCall> = std::mem::take(&mut *self.filter_log.lock().expect("log"));
        if calls.is_empty() {
            return Ok(());
        }
        let thr = self.blob_threshold();
        let trace = std::env::var("LSMV_TRACE").is_ok();
        let mut used: std::collections::BTreeSet<(Key, SeqNo)> = Default::default();
        for c in calls {
            if trace {
                println!(
                    "TRACE filter call key={} value={} verdict={:?} repl={:?} last_level={}",
                    crate::util::hex(&c.key),
                    crate::util::hex(&c.value[..c.value.len().min(8)]),
                    c.verdict,
                    c.replacement.as_ref().map(|r| crate::util::hex(&r[..r.len().min(8)])),
                    c.is_last_level
                );
            }
            self.stats.bump("filter.calls");
            // which write was shown? values are unique per write (and per replacement)
            let Some(ws) = self.model.writes.get(&c.key) else {
                if self.model.was_ever_written(&c.key, &c.value) {
                    // the model forgot this (shadowed) write at a reopen; it can only become visible
                    // again through a verdict that leaves the key's answer open
                    if let Some(r) = &c.replacement {
                        self.model.ever.entry(c.key.clone()).or_default().insert(r.clone());
                    }
                    continue;
                }
                return Err(format!(
                    "compaction filter was shown key {} with a value that was never written for it",
                    crate::util::hex(&c.key)
                ));
            };
            // calls of one compaction arrive newest version first and show every version at most
            // once; match against the values as they were before this compaction
            let shown = ws.iter().rev().find(|w| {
                !used.contains(&(c.key.clone(), w.seqno))
                    && w.loc == Loc::Durable
                    && matches!(self.model.effective_kind(&c.key, w, v), Kind::Val(ref x) if x == &c.value)
            });
            let Some(shown) = shown else {
                if self.model.was_ever_written(&c.key, &c.value) {
                    if let Some(r) = &c.replacement {
                        self.model.ever.entry(c.key.clone()).or_default().insert(r.clone());
                    }
                    continue;
                }
                return Err(format!(
                    "compaction filter was shown key {} with a value that was never written for it",
                    crate::util::hex(&c.key)
                ));
            };
            let shown_seq = shown.seqno;
            used.insert((c.key.clone(), shown_seq));
            let newest = self.model.deciding(&c.key, SeqNo::MAX).map(|w| w.seqno);
            let is_newest = newest == Some(shown_seq);
            if is_newest {
                self.stats.bump("filter.newest_shown");
            } else {
                self.stats.bump("filter.older_shown");
            }
            let kidx = self.keys.iter().position(|k| k == &c.key);
            let once = kidx.map_or(false, |i| self.kstate[i].writes_total == 1);
            match &c.verdict {
                VerdictSpec::Keep => {}
                VerdictSpec::Replace(_) => {
                    let r = c.replacement.clone().expect("replacement");
                    if let Some(t) = thr {
                        let old_sep = c.value.len() as u32 >= t;
                        let new_sep = r.len() as u32 >= t;
                        if old_sep != new_sep {
                            self.stats.bump("filter.replace_crossed_threshold");
                        }
                    }
                    self.model.rewrite(&c.key, shown_seq, Kind::Val(r), v);
                    self.stats.bump("filter.replace");
                }
                VerdictSpec::Remove => {
                    self.model.rewrite(&c.key, shown_seq, Kind::Tomb, v);
                    self.stats.bump("filter.remove");
                }
                VerdictSpec::RemoveWeak | VerdictSpec::Destroy => {
                    if once {
                        self.model.rewrite(&c.key, shown_seq, Kind::Tomb, v);
                        self.stats.bump("filter.weak_or_destroy_once");
                    } else {
                        // older versions may resurface: the properties leave the answer open
                        self.model.rewrite(&c.key, shown_seq, Kind::Tomb, v);
                        self.model.taint_key_bounded(&c.key, v, shown_seq + 1);
                        self.stats.bump("filter.weak_or_destroy_multi");
                    }
                }
            }
            if is_newest && !matches!(c.verdict, VerdictSpec::Keep) {
                // does a deeper, untouched level hold older versions of this key?
                if ws_len(&self.model, &c.key) >= 2 {
                    self.stats.bump("filter.newest_with_older_versions");
                }
            }
        }
        Ok(())
    }

    fn classify_layout(&mut self) {
        let ls = self.levels_summary();
        let nonempty = ls.iter().filter(|(_, t)| *t > 0).count();
        if nonempty >= 3 {
            self.stats.bump("layout.3levels");
        }
        if ls[0].0 >= 2 {
            self.stats.bump("layout.multi_l0_runs");
        }
        if ls.iter().any(|(r, t)| *r >= 1 && *t >= 3) {
            self.stats.bump("layout.3tables_in_level");
        }
        if self.tree().sealed_memtable_count() >= 2 {
            self.stats.bump("layout.2sealed");
        }
    }

    pub fn apply(&mut self, op: &Op) -> R<()> {
        self.op_no += 1;
        self.mid_models.clear();
        self.merge_happened = false;
        match op {
            Op::Insert { k, len } => self.single_write(*k, WKind::Put(*len)),
            Op::Remove { k } => self.single_write(*k, WKind::Del),
            Op::RemoveWeak { k } => self.single_write(*k, WKind::WeakDel),
            Op::Batch { items } => {
                let mut seen = vec![];
                let mut todo = vec![];
                for (k, kind) in items {
                    let kidx = key_index(*k, self.keys.len());
                    if seen.contains(&kidx) {
                        continue;
                    }
                    if let Some(kind) = self.admit(kidx, kind) {
                        seen.push(kidx);
                        todo.push((kidx, kind));
                    }
                }
                if !todo.is_empty() {
                    let s = self.seqno.next();
                    for (kidx, kind) in todo {
                        self.apply_write(kidx, kind, s);
                    }
                    self.visible.fetch_max(s + 1);
                    self.stats.bump("w.batch");
                }
            }
            Op::Fill {
                start,
                n,
                len,
                del,
                one_seqno,
            } => {
                let first = key_index(*start, self.keys.len());
                let last = (first + *n as usize).min(self.keys.len());
                let kind = if *del { WKind::Del } else { WKind::Put(*len) };
                let mut s_all: Option<SeqNo> = None;
                for kidx in first..last {
                    if let Some(kind) = self.admit(kidx, &kind) {
                        let s = if *one_seqno {
                            *s_all.get_or_insert_with(|| self.seqno.next())
                        } else {
                            self.seqno.next()
                        };
                        self.apply_write(kidx, kind, s);
                        if !*one_seqno {
                            self.visible.fetch_max(s + 1);
                        }
                    }
                }
                if let Some(s) = s_all {
                    self.visible.fetch_max(s + 1);
                }
                self.stats.bump("w.fill");
                if last - first > 254 {
                    self.stats.bump("w.fill_over254");
                }
                let c = &self.cfgs[self.cfg_idx];
                if c.block_size[0] >= (1 << 20) && c.hash_ratio[0] > 0.0 {
                    let r = c.restart[0].max(1) as usize;
                    let intervals = (last - first).div_ceil(r);
                    if (253..=257).contains(&intervals) {
                        self.stats.bump(&format!("dense.block_with_{intervals}_restart_intervals"));
                    }
                }
            }
            Op::Swapped { a, b, len } => {
                let ia = key_index(*a, self.keys.len());
                let ib = key_index(*b, self.keys.len());
                if ia != ib {
                    let ka = self.admit(ia, &WKind::Put(*len));
                    let kb = self.admit(ib, &WKind::Put(*len));
                    if let (Some(ka), Some(kb)) = (ka.clone(), kb.clone()) {
                        let s1 = self.seqno.next();
                        let s2 = self.seqno.next();
                        self.apply_write(ia, ka, s2);
                        self.apply_write(ib, kb, s1);
                        self.visible.fetch_max(s2 + 1);
                        self.stats.bump("w.swapped_seqnos");
                    } else {
                        // discipline keys: fall back to ordinary single writes for what was admitted
                        for (i, k) in [(ia, ka), (ib, kb)] {
                            if let Some(k) = k {
                                let s = self.seqno.next();
                                self.apply_write(i, k, s);
                                self.visible.fetch_max(s + 1);
                            }
                        }
                    }
                }
            }
            Op::Rotate => {
                let r = self.tree().rotate_memtable();
                if r.is_some() {
                    self.model.rotate();
                    self.stats.bump("m.rotate");
                }
            }
            Op::Flush { wm } => {
                let t = self.wm(*wm);
                self.note_wm(t);
                let had = self.model.has_sealed();
                let n = self.maint("flush", |tree| {
                    let lock = tree.get_flush_lock();
                    tree.flush(&lock, t).map(|_| ())
                })?;
                if had {
                    self.model.flush_sealed();
                    self.stats.bump("m.flush");
                    if n == 0 {
                        // all sealed memtables GC'd to nothing is possible (no table written)
                        self.stats.bump("m.flush_empty_result");
                    }
                }
            }
            Op::FlushActive { wm } => {
                let t = self.wm(*wm);
                self.note_wm(t);
                let had = self.model.has_sealed() || self.model.has_active();
                self.maint("flush", |tree| tree.flush_active_memtable(t))?;
                if had {
                    self.model.rotate();
                    self.model.flush_sealed();
                    self.stats.bump("m.flush");
                }
            }
            Op::Leveled {
                l0,
                target_log2,
                ratio_x10,
                wm,
            } => {
                let t = self.wm(*wm);
                self.note_wm(t);
                let strat = lsm_tree::compaction::Leveled::default()
                    .with_l0_threshold((*l0).clamp(1, 8))
                    .with_table_target_size(1u64 << ((*target_log2).min(26)))
                    .with_level_ratio_policy(vec![((*ratio_x10).clamp(10, 100) as f32) / 10.0]);
                let before = self.levels_summary();
                let tables_before = self.table_ids();
                let n = self.maint("leveled", |tree| tree.compact(Arc::new(strat), t))?;
                if n > 0 {
                    let after = self.levels_summary();
                    let tables_after = self.table_ids();
                    if tables_before == tables_after && before != after {
                        self.stats.bump("c.trivial_move");
                    } else if tables_before != tables_after {
                        self.merge_happened = true;
                        self.stats.bump("c.merge");
                        let removed = tables_before.iter().filter(|t| !tables_after.contains(t)).count();
                        if removed < tables_before.len() {
                            self.stats.bump("c.partial_merge");
                        }
                    }
                    self.stats.bump("m.leveled");
                }
            }
            Op::Major { target_log2, wm } => {
                let t = self.wm(*wm);
                self.note_wm(t);
                let target = if *target_log2 >= 40 {
                    u64::MAX
                } else {
                    1u64 << (*target_log2)
                };
                if self.tree().table_count() > 0 {
                    let n = self.maint("major", |tree| tree.major_compact(target, t))?;
                    self.merge_happened = n > 0;
                    self.stats.bump("m.major");
                }
            }
            Op::MoveDown { pair, wm } => {
                let (a, b) = level_pair(*pair);
                let t = self.wm(*wm);
                if self.movedown_ok(a, b) {
                    self.note_wm(t);
                    self.maint("movedown", |tree| {
                        tree.compact(Arc::new(lsm_tree::compaction::MoveDown(a, b)), t)
                    })?;
                    self.stats.bump("m.movedown");
                } else {
                    self.stats.bump("skip.movedown");
                }
            }
            Op::PullDown { pair, wm } => {
                let (a, b) = level_pair(*pair);
                let t = self.wm(*wm);
                if self.pulldown_ok(a, b) {
                    self.note_wm(t);
                    let n = self.maint("pulldown", |tree| {
                        tree.compact(Arc::new(lsm_tree::compaction::PullDown(a, b)), t)
                    })?;
                    self.merge_happened = n > 0;
                    self.stats.bump("m.pulldown");
                } else {
                    self.stats.bump("skip.pulldown");
                }
            }
            Op::Reopen {
                cfg,
                restart_counters,
            } => {
                self.reopen(*cfg, *restart_counters)?;
            }
            Op::SnapOpen => {
                if self.snaps.len() < self.max_snaps {
                    let s = self.visible.get();
                    let files = if self.audits.files {
                        crate::audit::version_files(self.tree())
                    } else {
                        vec![]
                    };
                    self.snaps.push(Snap {
                        s,
                        stored: None,
                        files,
                        rereads_after_change: 0,
                        installs_at_open: self.installs,
                    });
                    self.stats.bump("s.open");
                }
            }
            Op::SnapRelease { slot } => {
                if !self.snaps.is_empty() {
                    let i = (*slot as usize * self.snaps.len()) >> 8;
                    self.snaps.remove(i);
                    self.stats.bump("s.release");
                }
            }
            Op::Ingest {
                entries,
                pre_writes,
            } => self.ingest(entries, pre_writes)?,
            Op::DropRange { lo, hi } => self.drop_range(lo, hi)?,
            Op::Clear => {
                let v = self.seqno.get();
                self.maint("clear", |tree| tree.clear())?;
                self.model.clears.push(v);
                self.stats.bump("m.clear");
            }
            Op::Scan(spec) => crate::scan::run_scan(self, spec)?,
            Op::IterOpen { lo, hi, snap } => {
                if self.iters.len() < 3 {
                    let unpinned = *snap == 1;
                    let s: SeqNo = match snap {
                        0 => self.visible.get(),
                        1 => SeqNo::MAX,
                        n => {
                            let i = (*n - 2) as usize;
                            if i < self.snaps.len() {
                                self.snaps[i].s
                            } else {
                                self.visible.get()
                            }
                        }
                    };
                    let lo = resolve_bound(&self.keys, lo);
                    let hi = resolve_bound(&self.keys, hi);
                    let mut exp = vec![];
                    let mut loose = false;
                    if !unpinned {
                        for (k, e) in self.model.scan(s) {
                            if !in_bounds(&k, &lo, &hi) {
                                continue;
                            }
                            match e {
                                Expect::Exact(Some((v, _))) => exp.push((k, v)),
                                Expect::Loose => loose = true,
                                _ => {}
                            }
                        }
                    }
                    if !loose {
                        let desc = format!("held iterator range({lo:?},{hi:?})@{s}");
                        let files = if self.audits.files {
                            crate::audit::version_files(self.tree())
                        } else {
                            vec![]
                        };
                        let it = self.tree().range::<Key, _>((lo, hi), s, None);
                        let b = exp.len();
                        self.iters.push(LiveIter {
                            s,
                            it,
                            exp,
                            f: 0,
                            b,
                            desc,
                            installs_at_open: self.installs,
                            unpinned,
                            files,
                            last_front: None,
                            last_back: None,
                        });
                        self.stats.bump(if unpinned { "it.open_at_max" } else { "it.open" });
                    }
                }
            }
            Op::IterStep { slot, pops } => {
                if !self.iters.is_empty() {
                    let i = (*slot as usize * self.iters.len()) >> 8;
                    let installs = self.installs;
                    if self.iters[i].unpinned {
                        let pops = pops.clone();
                        self.step_unpinned(i, &pops, false)?;
                        return self.finish_apply();
                    }
                    let li = &mut self.iters[i];
                    for p in pops {
                        let got = if *p { li.it.next() } else { li.it.next_back() };
                        let e = if li.f < li.b {
                            Some(if *p { li.exp[li.f].clone() } else { li.exp[li.b - 1].clone() })
                        } else {
                            None
                        };
                        let got = match got {
                            Some(g) => Some(guard_kv(g).map_err(|w| format!("{}: {w}", li.desc))?),
                            None => None,
                        };
                        if got != e {
                            return Err(format!(
                                "{} (opened {} version installs ago) {}: yielded {:?}, expected {:?}",
                                li.desc,
                                installs - li.installs_at_open,
                                if *p { "next" } else { "next_back" },
                                got.as_ref().map(|x| crate::util::hex(&x.0)),
                                e.as_ref().map(|x| crate::util::hex(&x.0))
                            ));
                        }
                        if e.is_some() {
                            if *p {
                                li.f += 1
                            } else {
                                li.b -= 1
                            }
                        }
                    }
                    if installs > li.installs_at_open {
                        self.stats.bump("it.step_after_version_change");
                    }
                    self.stats.bump("it.step");
                }
            }
            Op::IterClose { slot, front } => {
                if !self.iters.is_empty() {
                    let i = (*slot as usize * self.iters.len()) >> 8;
                    if self.iters[i].unpinned {
                        self.step_unpinned(i, &[*front], true)?;
                        self.iters.remove(i);
                        self.stats.bump("it.close");
                        return self.finish_apply();
                    }
                    let mut li = self.iters.remove(i);
                    loop {
                        let got = if *front { li.it.next() } else { li.it.next_back() };
                        let e = if li.f < li.b {
                            Some(if *front { li.exp[li.f].clone() } else { li.exp[li.b - 1].clone() })
                        } else {
                            None
                        };
                        let got = match got {
                            Some(g) => Some(guard_kv(g).map_err(|w| format!("{}: {w}", li.desc))?),
                            None => None,
                        };
                        if got != e {
                            return Err(format!(
                                "{} drain: yielded {:?}, expected {:?}",
                                li.desc,
                                got.as_ref().map(|x| crate::util::hex(&x.0)),
                                e.as_ref().map(|x| crate::util::hex(&x.0))
                            ));
                        }
                        if e.is_none() {
                            break;
                        }
                        if *front {
                            li.f += 1
                        } else {
                            li.b -= 1
                        }
                    }
                    self.stats.bump("it.close");
                }
            }
            Op::Fifo { .. } | Op::Clock { .. } => {
                // handled by the dedicated C19 driver
            }
        }
        self.finish_apply()
    }

    fn finish_apply(&mut self) -> R<()> {
        if self.op_no % 4 == 0 {
            self.classify_layout();
        }
        Ok(())
    }

    /// Consume items of an iterator opened at SeqNo::MAX: every item must be Ok and carry a value that was
    /// written for its key (`drain` = run to the end from one side).
    fn step_unpinned(&mut self, i: usize, pops: &[bool], drain: bool) -> R<()> {
        let mut n = 0u64;
        let mut k = 0usize;
        loop {
            let p = if drain { pops[0] } else if k < pops.len() { pops[k] } else { break };
            k += 1;
            let li = &mut self.iters[i];
            let got = if p { li.it.next() } else { li.it.next_back() };
            let Some(g) = got else { break };
            let (key, val) = guard_kv(g).map_err(|w| format!("{} (opened at SeqNo::MAX, {} version installs ago): {w}", li.desc, self.installs - li.installs_at_open))?;
            if !self.model.was_ever_written(&key, &val) {
                return Err(format!("{}: yielded a value never written for key {}", li.desc, crate::util::hex(&key)));
            }
            // no order demand: writes that land in the shared active memtable while the iterator is alive
            // may legitimately show up (even a newer version of a key it has already passed)
            if p {
                li.last_front = Some(key);
            } else {
                li.last_back = Some(key);
            }
            n += 1;
        }
        self.stats.add("it.items_at_max", n);
        if self.installs > self.iters[i].installs_at_open {
            self.stats.bump("it.step_at_max_after_version_change");
        }
        Ok(())
    }

    pub fn table_ids(&self) -> Vec<u64> {
        let v = self.tree().current_version();
        let mut ids: Vec<u64> = v.iter_tables().map(|t| t.id()).collect();
        ids.sort_unstable();
        ids
    }

    fn movedown_ok(&self, a: u8, b: u8) -> bool {
        let v = self.tree().current_version();
        let (Some(la), Some(lb)) = (v.level(a as usize), v.level(b as usize)) else {
            return false;
        };
        if la.run_count() != 1 {
            return false;
        }
        for i in (a + 1)..b {
            if !v.level(i as usize).map_or(true, |l| l.is_empty()) {
                return false;
            }
        }
        if lb.run_count() > 1 {
            return false;
        }
        for ta in la.iter().flat_map(|r| r.iter()) {
            for tb in lb.iter().flat_map(|r| r.iter()) {
                if ta
                    .metadata
                    .key_range
                    .overlaps_with_key_range(&tb.metadata.key_range)
                {
                    return false;
                }
            }
        }
        true
    }

    fn pulldown_ok(&self, a: u8, b: u8) -> bool {
        let v = self.tree().current_version();
        let (Some(la), Some(_lb)) = (v.level(a as usize), v.level(b as usize)) else {
            return false;
        };
        if la.is_empty() {
            return false;
        }
        for i in (a + 1)..b {
            if !v.level(i as usize).map_or(true, |l| l.is_empty()) {
                return false;
            }
        }
        true
    }

    pub fn reopen(&mut self, cfg: u8, restart_counters: bool) -> R<()> {
        // expected durable content, computed before the drop
        let pre_tables = self.tree().table_count();
        let pre_blobs = self.tree().blob_file_count();
        let pre_persisted = self.tree().get_highest_persisted_seqno();
        let ls = self.levels_summary();
        if ls[0].0 >= 2 || ls.iter().filter(|(_, t)| *t > 0).count() >= 3 {
            self.stats.bump("reopen.rich_layout");
        }
        self.snaps.clear();
        self.iters.clear();
        self.tree = None; // drop
        let new_cfg = (cfg as usize * self.cfgs.len()) >> 8;
        // tree type is fixed for the life of a directory
        if self.cfgs[new_cfg].blob.is_some() == self.cfgs[self.cfg_idx].blob.is_some() {
            if new_cfg != self.cfg_idx {
                self.stats.bump("reopen.other_cfg");
            }
            self.cfg_idx = new_cfg;
        }
        if restart_counters {
            // the documented way: fresh counters, restarted above the highest stored seqno
            self.seqno = SequenceNumberCounter::default();
            self.visible = SequenceNumberCounter::default();
        }
        self.open()?;
        let restart = if restart_counters {
            let hi = self.tree().get_highest_seqno();
            let next = hi.map_or(0, |h| h + 1);
            self.seqno.set(next);
            self.visible.set(next);
            self.stats.bump("reopen.restart_counters");
            next
        } else {
            self.visible.get()
        };
        self.model.reopen(restart);
        self.last_wm = 0;
        self.installs_at_open = self.installs;
        self.layout_changed = true;
        self.reopen_count += 1;
        self.stats.bump("m.reopen");
        // C04 extras
        let t = self.tree();
        if t.table_count() != pre_tables {
            return Err(format!(
                "table_count changed across reopen: {pre_tables} -> {}",
                t.table_count()
            ));
        }
        if t.blob_file_count() != pre_blobs {
            return Err(format!(
                "blob_file_count changed across reopen: {pre_blobs} -> {}",
                t.blob_file_count()
            ));
        }
        if t.get_highest_persisted_seqno() != pre_persisted {
            return Err(format!(
                "get_highest_persisted_seqno changed across reopen: {pre_persisted:?} -> {:?}",
                t.get_highest_persisted_seqno()
            ));
        }
        if t.get_highest_memtable_seqno().is_some() {
            return Err("memtable not empty after reopen".into());
        }
        Ok(())
    }

    fn ingest(&mut self, entries: &[(u16, WKind)], pre_writes: &[(u16, WKind)]) -> R<()> {
        // resolve to strictly ascending distinct keys
        let mut by_idx: BTreeMap<Key, (usize, WKind)> = BTreeMap::new();
        for (k, kind) in entries {
            let kidx = key_index(*k, self.keys.len());
            let key = self.keys[kidx].clone();
            if by_idx.contains_key(&key) {
                continue;
            }
            by_idx.insert(key, (kidx, kind.clone()));
        }
        // writes that happen between ingestion() and finish() must be decided before the
        // discipline admission of the batch (they come first in seqno order)
        let tree = self.tree.clone().expect("open");
        let mut ing = tree
            .ingestion()
            .map_err(|e| format!("ingestion() failed: {e:?}"))?;
        for (k, kind) in pre_writes {
            self.single_write(*k, kind.clone());
        }
        let mut admitted: Vec<(Key, usize, WKind, Option<Vec<u8>>)> = vec![];
        for (key, (kidx, kind)) in by_idx {
            if let Some(kind) = self.admit(kidx, &kind) {
                let val = match &kind {
                    WKind::Put(c) => Some(self.make_value(kidx, *c)),
                    _ => None,
                };
                admitted.push((key, kidx, kind, val));
            }
        }
        for (key, _kidx, kind, val) in &admitted {
            let r = match kind {
                WKind::Put(_) => ing.write(key.clone(), val.clone().expect("val")),
                WKind::Del => ing.write_tombstone(key.clone()),
                WKind::WeakDel => {
                    if self.weak_as_strong {
                        ing.write_tombstone(key.clone())
                    } else {
                        ing.write_weak_tombstone(key.clone())
                    }
                }
            };
            r.map_err(|e| format!("ingestion write failed: {e:?}"))?;
        }
        let had_mem = self.model.has_active() || self.model.has_sealed();
        if had_mem {
            let mut mid = self.model.clone();
            mid.rotate();
            mid.flush_sealed();
            self.mid_models.push(mid);
        }
        let before = self.seqno.get();
        let r = ing.finish();
        let after = self.seqno.get();
        r.map_err(|e| format!("ingestion finish returned Err: {e:?}"))?;
        self.installs += after - before;
        self.layout_changed = true;
        let d = after - before;
        if d == 0 {
            // nothing was published (a standard tree returns early on an empty batch)
            if !admitted.is_empty() {
                return Err("ingestion finish() published a non-empty batch without drawing a sequence number".into());
            }
            self.stats.bump("m.ingest_empty");
            return Ok(());
        }
        // finish() flushed everything that was in memtables (one version install), then drew G
        if had_mem && d >= 2 {
            self.model.rotate();
            self.model.flush_sealed();
        }
        if admitted.is_empty() {
            self.stats.bump("m.ingest_empty");
            return Ok(());
        }
        let g = after - 1;
        for (key, _kidx, kind, val) in admitted {
            let kind = match kind {
                WKind::Put(_) => Kind::Val(val.expect("val")),
                WKind::Del => Kind::Tomb,
                WKind::WeakDel => Kind::WeakTomb,
            };
            self.model.put(&key, g, kind, Loc::Durable, true);
        }
        self.stats.bump("m.ingest");
        Ok(())
    }

    fn drop_range(&mut self, lo: &BoundSpec, hi: &BoundSpec) -> R<()> {
        let lo = resolve_bound(&self.keys, lo);
        let hi = resolve_bound(&self.keys, hi);
        let tables_before = self.table_ids();
        let v = self.seqno.get();
        let range = (lo.clone(), hi.clone());
        let n = self.maint("drop_range", |tree| tree.drop_range::<Key, _>(range))?;
        let tables_after = self.table_ids();
        let empty_or_inverted = match (&lo, &hi) {
            (Bound::Included(a), Bound::Included(b)) => a > b,
            (Bound::Included(a), Bound::Excluded(b))
            | (Bound::Excluded(a), Bound::Included(b))
            | (Bound::Excluded(a), Bound::Excluded(b)) => a >= b,
            _ => false,
        };
        if empty_or_inverted {
            self.stats.bump("m.drop_range_empty");
            if tables_before != tables_after {
                return Err(format!(
                    "drop_range with empty/inverted bounds {lo:?}..{hi:?} changed the table set {tables_before:?} -> {tables_after:?}"
                ));
            }
            return Ok(());
        }
        if !tables_after.iter().all(|t| tables_before.contains(t)) {
            return Err("drop_range created tables".into());
        }
        if n > 0 && tables_before != tables_after {
            // taint all model keys inside the range for snapshots after this version
            // every pool key (the model may have forgotten a key whose newest entry is a tombstone)
            let keys: Vec<Key> = self
                .keys
                .iter()
                .filter(|k| in_bounds(k, &lo, &hi))
                .cloned()
                .collect();
            for k in keys {
                self.model.taint_key(&k, v);
            }
        }
        if tables_before != tables_after {
            self.stats.bump("m.drop_range_dropped");
        }
        self.stats.bump("m.drop_range");
        Ok(())
    }
}

fn ws_len(m: &Model, k: &[u8]) -> usize {
    m.writes.get(k).map_or(0, |w| w.len())
}

/// Compare an observed point answer with the model's expectation.
pub fn check_point(
    model: &Model,
    key: &[u8],
    snap: SeqNo,
    got: &Option<Vec<u8>>,
    what: &str,
) -> R<bool> {
    match model.read(key, snap) {
        Expect::Exact(exp) => {
            let expv = exp.as_ref().map(|(v, _)| v.clone());
            if &expv != got {
                note_fail_key(key);
                return Err(format!(
                    "{what}: key {:?} at snapshot {snap}: expected {}, got {}",
                    crate::util::hex(key),
                    crate::util::show_val(&expv),
                    crate::util::show_val(got)
                ));
            }
            Ok(true)
        }
        Expect::Loose => {
            if let Some(v) = got {
                if !model.was_ever_written(key, v) {
                    note_fail_key(key);
                    return Err(format!(
                        "{what}: key {:?} at snapshot {snap}: returned a value never written for this key: {}",
                        crate::util::hex(key),
                        crate::util::show_val(got)
                    ));
                }
            }
            Ok(false)
        }
    }
}

pub fn guard_kv(g: lsm_tree::IterGuardImpl) -> R<(Key, Vec<u8>)> {
    g.into_inner()
        .map(|(k, v)| (k.to_vec(), v.to_vec()))
        .map_err(|e| format!("scan item returned Err: {e:?}"))
}
