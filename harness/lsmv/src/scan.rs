//! C03: range / prefix scans consumed from both ends, with optional overlay memtable.

use crate::exec::{in_bounds, resolve_bound, Exec, Key, R};
use crate::model::Expect;
use crate::spec::*;
use crate::util::hex;
use lsm_tree::{AbstractTree, Guard, InternalValue, Memtable, SeqNo, ValueType};
use std::collections::BTreeMap;
use std::ops::Bound;
use std::sync::Arc;

const MSB: u64 = 0x8000_0000_0000_0000;

fn item_of(g: lsm_tree::IterGuardImpl, accessor: u8) -> R<(Key, Option<Vec<u8>>, Option<u32>)> {
    match accessor % 3 {
        0 => g
            .into_inner()
            .map(|(k, v)| (k.to_vec(), Some(v.to_vec()), None))
            .map_err(|e| format!("guard.into_inner Err: {e:?}")),
        1 => g
            .key()
            .map(|k| (k.to_vec(), None, None))
            .map_err(|e| format!("guard.key Err: {e:?}")),
        _ => {
            // size() consumes the guard; key is not available then, so use into_inner_if with a false
            // predicate on even op numbers to get the key, otherwise size only
            g.size()
                .map(|s| (vec![], None, Some(s)))
                .map_err(|e| format!("guard.size Err: {e:?}"))
        }
    }
}

fn check_item(
    got: Option<(Key, Option<Vec<u8>>, Option<u32>)>,
    exp: Option<&(Key, Vec<u8>)>,
    what: &str,
) -> R<()> {
    match (got, exp) {
        (None, None) => Ok(()),
        (Some((k, v, sz)), Some((ek, ev))) => {
            if sz.is_none() && &k != ek {
                return Err(format!("{what}: yielded key {} expected {}", hex(&k), hex(ek)));
            }
            if let Some(v) = v {
                if &v != ev {
                    return Err(format!(
                        "{what}: key {} yielded value {} expected {}",
                        hex(&k),
                        crate::util::show_val(&Some(v)),
                        crate::util::show_val(&Some(ev.clone()))
                    ));
                }
            }
            if let Some(sz) = sz {
                if sz as usize != ev.len() {
                    return Err(format!(
                        "{what}: guard.size() = {sz} but the value of key {} has {} bytes",
                        hex(ek),
                        ev.len()
                    ));
                }
            }
            Ok(())
        }
        (Some((k, _, _)), None) => Err(format!(
            "{what}: yielded an extra item (key {}) where the model has none",
            hex(&k)
        )),
        (None, Some((ek, _))) => Err(format!(
            "{what}: iterator ended but the model still has key {}",
            hex(ek)
        )),
    }
}

pub fn run_scan(ex: &mut Exec, spec: &ScanSpec) -> R<()> {
    let t = ex.tree().clone();
    // snapshot
    let s: SeqNo = match spec.snap {
        0 => ex.visible.get(),
        1 => SeqNo::MAX,
        n => {
            let i = (n - 2) as usize;
            if i < ex.snaps.len() {
                ex.snaps[i].s
            } else {
                ex.visible.get()
            }
        }
    };
    // overlay
    let mut overlay_model: BTreeMap<Key, Option<Vec<u8>>> = BTreeMap::new();
    let overlay = if spec.overlay.is_empty() {
        None
    } else {
        let mt = Memtable::new(1_000_000);
        for (i, (k, kind)) in spec.overlay.iter().enumerate() {
            let kidx = key_index(*k, ex.keys.len());
            let key = ex.keys[kidx].clone();
            if overlay_model.contains_key(&key) {
                continue;
            }
            let seq = MSB | (i as u64 + 1);
            match kind {
                WKind::Put(c) => {
                    let v = ex.make_value(kidx, *c);
                    mt.insert(InternalValue::from_components(
                        key.clone(),
                        v.clone(),
                        seq,
                        ValueType::Value,
                    ));
                    overlay_model.insert(key, Some(v));
                }
                _ => {
                    mt.insert(InternalValue::new_tombstone(key.clone(), seq));
                    overlay_model.insert(key, None);
                }
            }
        }
        Some((Arc::new(mt), SeqNo::MAX))
    };

    // whole-tree expectation at s with overlay
    let mut whole: BTreeMap<Key, Vec<u8>> = BTreeMap::new();
    let mut loose = false;
    for (k, e) in ex.model.scan(s) {
        match e {
            Expect::Exact(Some((v, _))) => {
                whole.insert(k, v);
            }
            Expect::Loose => loose = true,
            _ => {}
        }
    }
    if loose {
        ex.stats.bump("scan.skipped_loose");
        return Ok(());
    }
    for (k, v) in &overlay_model {
        match v {
            Some(v) => {
                whole.insert(k.clone(), v.clone());
            }
            None => {
                whole.remove(k);
            }
        }
    }

    // whole-tree accessors
    {
        let f = t.first_key_value(s, overlay.clone());
        let fk = match f {
            Some(g) => Some(g.key().map_err(|e| format!("first_key_value Err: {e:?}"))?.to_vec()),
            None => None,
        };
        if fk.as_ref() != whole.keys().next() {
            return Err(format!(
                "first_key_value at {s} = {:?}, model says {:?}",
                fk.as_ref().map(|k| hex(k)),
                whole.keys().next().map(|k| hex(k))
            ));
        }
        let l = t.last_key_value(s, overlay.clone());
        let lk = match l {
            Some(g) => Some(g.key().map_err(|e| format!("last_key_value Err: {e:?}"))?.to_vec()),
            None => None,
        };
        if lk.as_ref() != whole.keys().next_back() {
            return Err(format!(
                "last_key_value at {s} = {:?}, model says {:?}",
                lk.as_ref().map(|k| hex(k)),
                whole.keys().next_back().map(|k| hex(k))
            ));
        }
        let n = t
            .len(s, overlay.clone())
            .map_err(|e| format!("len Err: {e:?}"))?;
        if n != whole.len() {
            return Err(format!("len({s}) = {n}, model says {}", whole.len()));
        }
        let e = t
            .is_empty(s, overlay.clone())
            .map_err(|e| format!("is_empty Err: {e:?}"))?;
        if e != whole.is_empty() {
            return Err(format!("is_empty({s}) = {e}, model has {} live keys", whole.len()));
        }
    }

    // the query
    let (exp, mut iter, desc): (
        Vec<(Key, Vec<u8>)>,
        Box<dyn DoubleEndedIterator<Item = lsm_tree::IterGuardImpl> + Send>,
        String,
    ) = if let Some((k, plen)) = &spec.prefix {
        let key = &ex.keys[key_index(*k, ex.keys.len())];
        let prefix: Vec<u8> = if *plen == 255 {
            let mut p = key.clone();
            p.push(0xFF);
            p
        } else {
            let n = (key.len() * (*plen as usize) + 253) / 254;
            key[..n.min(key.len())].to_vec()
        };
        let exp: Vec<_> = whole
            .iter()
            .filter(|(k, _)| k.starts_with(&prefix))
            .map(|(k, v)| (k.clone(), v.clone()))
            .collect();
        if prefix.last() == Some(&0xFF) {
            ex.stats.bump("scan.prefix_ff_tail");
        }
        let d = format!("prefix({})@{s}", hex(&prefix));
        (exp, t.prefix(prefix, s, overlay.clone()), d)
    } else {
        let lo = resolve_bound(&ex.keys, &spec.lo);
        let hi = resolve_bound(&ex.keys, &spec.hi);
        let exp: Vec<_> = whole
            .iter()
            .filter(|(k, _)| in_bounds(k, &lo, &hi))
            .map(|(k, v)| (k.clone(), v.clone()))
            .collect();
        // classification
        if let (Some(min), Some(max)) = (whole.keys().next(), whole.keys().next_back()) {
            let inside = |b: &Bound<Key>| match b {
                Bound::Included(k) | Bound::Excluded(k) => k > min && k < max,
                _ => false,
            };
            if inside(&lo) || inside(&hi) {
                ex.stats.bump("scan.bound_inside_span");
            }
        }
        let d = format!("range({lo:?}, {hi:?})@{s}");
        (exp, t.range::<Key, _>((lo, hi), s, overlay.clone()), d)
    };

    let mut f = 0usize;
    let mut b = exp.len();
    let mut alternations = 0;
    let mut lastdir: Option<bool> = None;
    for (i, front) in spec.pops.iter().enumerate() {
        if lastdir.is_some() && lastdir != Some(*front) {
            alternations += 1;
        }
        lastdir = Some(*front);
        let what = format!("{desc} pop #{i} ({})", if *front { "next" } else { "next_back" });
        if *front {
            let got = iter.next().map(|g| item_of(g, spec.accessor)).transpose()?;
            let e = if f < b { Some(&exp[f]) } else { None };
            check_item(got, e, &what)?;
            if f < b {
                f += 1;
            } else {
                break;
            }
        } else {
            let got = iter
                .next_back()
                .map(|g| item_of(g, spec.accessor))
                .transpose()?;
            let e = if f < b { Some(&exp[b - 1]) } else { None };
            check_item(got, e, &what)?;
            if f < b {
                b -= 1;
            } else {
                break;
            }
        }
    }
    // drain
    loop {
        let what = format!("{desc} drain ({})", if spec.drain_front { "next" } else { "next_back" });
        if spec.drain_front {
            let got = iter.next().map(|g| item_of(g, spec.accessor)).transpose()?;
            let e = if f < b { Some(&exp[f]) } else { None };
            let done = got.is_none();
            check_item(got, e, &what)?;
            if done {
                break;
            }
            f += 1;
        } else {
            let got = iter
                .next_back()
                .map(|g| item_of(g, spec.accessor))
                .transpose()?;
            let e = if f < b { Some(&exp[b - 1]) } else { None };
            let done = got.is_none();
            check_item(got, e, &what)?;
            if done {
                break;
            }
            b -= 1;
        }
    }
    // after the ends met nothing may come from the other side either
    let other = if spec.drain_front {
        iter.next_back()
    } else {
        iter.next()
    };
    if let Some(g) = other {
        let k = g.key().map(|k| hex(&k)).unwrap_or_default();
        return Err(format!(
            "{desc}: after the iterator was exhausted from one end, the other end still yielded key {k}"
        ));
    }
    drop(iter);

    ex.stats.bump("scan.queries");
    let sources = {
        let v = t.current_version();
        let runs: usize = v.iter_levels().map(|l| l.run_count()).sum();
        runs + t.sealed_memtable_count() + usize::from(!t.active_memtable().is_empty())
    };
    if sources >= 2 {
        ex.stats.bump("scan.multi_source");
    }
    if alternations >= 2 {
        ex.stats.bump("scan.alternating");
    }
    if overlay.is_some() {
        ex.stats.bump("scan.overlay");
    }
    if exp.is_empty() {
        ex.stats.bump("scan.empty_result");
    }
    Ok(())
}
