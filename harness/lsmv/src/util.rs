use std::path::{Path, PathBuf};

pub fn hex(b: &[u8]) -> String {
    let mut s = String::new();
    for (i, x) in b.iter().enumerate() {
        if i >= 24 {
            s.push_str(&format!("..(+{})", b.len() - 24));
            break;
        }
        s.push_str(&format!("{x:02x}"));
    }
    s
}

pub fn show_val(v: &Option<Vec<u8>>) -> String {
    match v {
        None => "None".into(),
        Some(v) => format!("Some(len={} {})", v.len(), hex(&v[..v.len().min(8)])),
    }
}

pub fn fnv(data: &[u8]) -> u64 {
    let mut h: u64 = 0xcbf29ce484222325;
    for b in data {
        h ^= *b as u64;
        h = h.wrapping_mul(0x100000001b3);
    }
    h
}

/// root of the verification tree (normally /verif; LSMV_ROOT lets a background snapshot run in place)
pub fn verif_root() -> PathBuf {
    match std::env::var("LSMV_ROOT") {
        Ok(s) if !s.is_empty() => PathBuf::from(s),
        _ => PathBuf::from("/verif"),
    }
}

/// re-base an absolute "/verif/..." path onto `verif_root()`
pub fn rebase(p: &str) -> PathBuf {
    match p.strip_prefix("/verif/") {
        Some(rest) => verif_root().join(rest),
        None => PathBuf::from(p),
    }
}

pub fn scratch_root() -> PathBuf {
    let base = if Path::new("/dev/shm").is_dir() {
        PathBuf::from("/dev/shm")
    } else {
        std::env::temp_dir()
    };
    base.join(format!("lsmv-{}", std::process::id()))
}

pub fn rm_rf(p: &Path) {
    let _ = std::fs::remove_dir_all(p);
}

/// sorted recursive listing (relative paths, files only)
pub fn list_files(root: &Path) -> Vec<PathBuf> {
    fn walk(dir: &Path, root: &Path, out: &mut Vec<PathBuf>) {
        if let Ok(rd) = std::fs::read_dir(dir) {
            for e in rd.flatten() {
                let p = e.path();
                if p.is_dir() {
                    walk(&p, root, out);
                } else {
                    out.push(p.strip_prefix(root).unwrap_or(&p).to_path_buf());
                }
            }
        }
    }
    let mut out = vec![];
    walk(root, root, &mut out);
    out.sort();
    out
}

pub fn copy_dir(src: &Path, dst: &Path) -> std::io::Result<()> {
    std::fs::create_dir_all(dst)?;
    for e in std::fs::read_dir(src)? {
        let e = e?;
        let p = e.path();
        let d = dst.join(e.file_name());
        if p.is_dir() {
            copy_dir(&p, &d)?;
        } else {
            std::fs::copy(&p, &d)?;
        }
    }
    Ok(())
}
