//! Independent decoder of `current` and `v<N>` (C07: the version file on disk decodes to the same
//! structure as the in-memory version).

use crate::exec::{Exec, R};
use lsm_tree::AbstractTree;
use std::collections::BTreeMap;
use std::io::Read;
use std::path::Path;

#[derive(Debug, PartialEq, Eq, Clone)]
pub struct DecodedVersion {
    pub id: u64,
    pub tree_type: u8,
    /// level -> runs -> (table id, checksum, global seqno)
    pub levels: Vec<Vec<Vec<(u64, u128, u64)>>>,
    pub blob_files: Vec<(u64, u128)>,
    pub gc_stats: BTreeMap<u64, (u64, u64, u64)>,
}

fn rd<const N: usize>(r: &mut impl Read) -> Result<[u8; N], String> {
    let mut b = [0u8; N];
    r.read_exact(&mut b).map_err(|e| format!("short read: {e}"))?;
    Ok(b)
}
fn u8_(r: &mut impl Read) -> Result<u8, String> {
    Ok(rd::<1>(r)?[0])
}
fn u32_(r: &mut impl Read) -> Result<u32, String> {
    Ok(u32::from_le_bytes(rd::<4>(r)?))
}
fn u64_(r: &mut impl Read) -> Result<u64, String> {
    Ok(u64::from_le_bytes(rd::<8>(r)?))
}
fn u128_(r: &mut impl Read) -> Result<u128, String> {
    Ok(u128::from_le_bytes(rd::<16>(r)?))
}

pub fn read_current(dir: &Path) -> Result<(u64, u128, u8), String> {
    let b = std::fs::read(dir.join("current")).map_err(|e| format!("read current: {e}"))?;
    if b.len() != 25 {
        return Err(format!("`current` has {} bytes, expected 25", b.len()));
    }
    let mut r = &b[..];
    Ok((u64_(&mut r)?, u128_(&mut r)?, u8_(&mut r)?))
}

pub fn decode(dir: &Path) -> Result<DecodedVersion, String> {
    let (id, checksum, _ty) = read_current(dir)?;
    let path = dir.join(format!("v{id}"));
    let bytes = std::fs::read(&path).map_err(|e| format!("read v{id}: {e}"))?;
    let actual = xxhash_rust::xxh3::xxh3_128(&bytes);
    if actual != checksum {
        return Err(format!(
            "checksum in `current` ({checksum:x}) does not match v{id} ({actual:x})"
        ));
    }
    let reader = sfa::Reader::new(&path).map_err(|e| format!("sfa open v{id}: {e:?}"))?;
    let toc = reader.toc();
    let sec = |name: &[u8]| -> Result<Vec<u8>, String> {
        let e = toc
            .section(name)
            .ok_or_else(|| format!("section {:?} missing", String::from_utf8_lossy(name)))?;
        let (p, l) = (e.pos() as usize, e.len() as usize);
        bytes
            .get(p..p + l)
            .map(|s| s.to_vec())
            .ok_or_else(|| "section out of file bounds".to_string())
    };
    let tree_type = *sec(b"tree_type")?.first().ok_or("empty tree_type")?;
    let t = sec(b"tables")?;
    let mut r = &t[..];
    let lc = u8_(&mut r)?;
    let mut levels = vec![];
    for _ in 0..lc {
        let rc = u8_(&mut r)?;
        let mut runs = vec![];
        for _ in 0..rc {
            let tc = u32_(&mut r)?;
            let mut tables = vec![];
            for _ in 0..tc {
                let id = u64_(&mut r)?;
                let ct = u8_(&mut r)?;
                if ct != 0 {
                    return Err(format!("checksum type {ct}"));
                }
                let cs = u128_(&mut r)?;
                let gs = u64_(&mut r)?;
                tables.push((id, cs, gs));
            }
            runs.push(tables);
        }
        levels.push(runs);
    }
    if !r.is_empty() {
        return Err("trailing bytes in tables section".into());
    }
    let b = sec(b"blob_files")?;
    let mut r = &b[..];
    let n = u32_(&mut r)?;
    let mut blob_files = vec![];
    for _ in 0..n {
        let id = u64_(&mut r)?;
        let ct = u8_(&mut r)?;
        if ct != 0 {
            return Err(format!("checksum type {ct}"));
        }
        blob_files.push((id, u128_(&mut r)?));
    }
    blob_files.sort();
    let g = sec(b"blob_gc_stats")?;
    let mut r = &g[..];
    let n = u32_(&mut r)?;
    let mut gc_stats = BTreeMap::new();
    for _ in 0..n {
        let id = u64_(&mut r)?;
        let len = u32_(&mut r)? as u64;
        let bytes = u64_(&mut r)?;
        let disk = u64_(&mut r)?;
        gc_stats.insert(id, (len, bytes, disk));
    }
    Ok(DecodedVersion {
        id,
        tree_type,
        levels,
        blob_files,
        gc_stats,
    })
}

pub fn in_memory(ex: &Exec) -> DecodedVersion {
    let v = ex.tree().current_version();
    let levels = v
        .iter_levels()
        .map(|l| {
            l.iter()
                .map(|run| {
                    run.iter()
                        .map(|t| (t.id(), t.checksum().into_u128(), t.global_seqno()))
                        .collect()
                })
                .collect()
        })
        .collect();
    let mut blob_files: Vec<(u64, u128)> = v
        .blob_files
        .iter()
        .map(|b| (b.id(), b.checksum().into_u128()))
        .collect();
    blob_files.sort();
    let gc_stats = crate::blob::frag_map(v.gc_stats());
    DecodedVersion {
        id: v.id(),
        tree_type: if ex.is_blob() { 1 } else { 0 },
        levels,
        blob_files,
        gc_stats,
    }
}

pub fn audit(ex: &mut Exec) -> R<()> {
    let disk = decode(&ex.dir).map_err(|e| format!("version file does not decode: {e}"))?;
    let mem = in_memory(ex);
    if disk != mem {
        return Err(format!(
            "version file on disk differs from the published version:\n disk={disk:?}\n mem ={mem:?}"
        ));
    }
    ex.stats.bump("audit.manifest");
    Ok(())
}
