//! E2: in-binary libc interposition. The harness binary defines the libc file-system symbols
//! itself; std (statically linked) and rustix (built with --cfg rustix_use_libc) resolve to them.
//! Calls on paths / fds under the current thread's session root are recorded, optionally failed,
//! everything else passes straight through.

#![allow(clippy::missing_safety_doc)]

use std::cell::RefCell;
use std::collections::HashMap;
use std::ffi::CStr;
use std::os::raw::{c_char, c_int, c_long, c_void};
use std::path::{Path, PathBuf};

#[derive(Clone, Debug, PartialEq, Eq)]
pub enum Ev {
    /// op boundary: the op with this index starts now
    Marker(u32),
    Mkdir(PathBuf),
    /// open(O_CREAT): file created if absent; trunc = O_TRUNC
    Create { path: PathBuf, trunc: bool },
    Write { path: PathBuf, off: u64, data: Vec<u8> },
    Fsync { path: PathBuf, dir: bool },
    Rename { from: PathBuf, to: PathBuf },
    Unlink(PathBuf),
    Rmdir(PathBuf),
    Truncate { path: PathBuf, len: u64 },
}

#[derive(Default)]
pub struct Session {
    pub root: PathBuf,
    pub active: bool,
    pub record: bool,
    pub fds: HashMap<c_int, PathBuf>,
    pub trace: Vec<Ev>,
    /// number of intercepted calls (under root) so far
    pub calls: u64,
    /// fail the call with this index (0-based) once
    pub fail_at: Option<(u64, c_int)>,
    pub fail_fired: Option<String>,
    /// count reads as calls too
    pub count_reads: bool,
    pub call_log: Vec<&'static str>,
    pub log_calls: bool,
}

thread_local! {
    static SESSION: RefCell<Option<Session>> = const { RefCell::new(None) };
    static CLOCK_OFFSET_NS: std::cell::Cell<i128> = const { std::cell::Cell::new(0) };
}

pub fn begin(root: &Path, record: bool) {
    SESSION.with(|s| {
        *s.borrow_mut() = Some(Session {
            root: root.to_path_buf(),
            active: true,
            record,
            ..Default::default()
        })
    });
}

pub fn end() -> Option<Session> {
    SESSION.with(|s| s.borrow_mut().take())
}

pub fn with<R>(f: impl FnOnce(&mut Session) -> R) -> Option<R> {
    SESSION
        .try_with(|s| match s.try_borrow_mut() {
            Ok(mut g) => g.as_mut().map(f),
            Err(_) => None,
        })
        .ok()
        .flatten()
}

/// Suspend interception while the harness does its own file-system work on this thread.
pub struct Pause(bool);
pub fn pause() -> Pause {
    Pause(with(|s| std::mem::replace(&mut s.active, false)).unwrap_or(false))
}
impl Drop for Pause {
    fn drop(&mut self) {
        let prev = self.0;
        with(|s| s.active = prev);
    }
}

pub fn marker(i: u32) {
    with(|s| {
        if s.record {
            s.trace.push(Ev::Marker(i));
        }
    });
}

pub fn set_clock_offset_secs(secs: u64) {
    CLOCK_OFFSET_NS.with(|c| c.set(secs as i128 * 1_000_000_000));
}

fn cpath(p: *const c_char) -> Option<PathBuf> {
    if p.is_null() {
        return None;
    }
    let c = unsafe { CStr::from_ptr(p) };
    use std::os::unix::ffi::OsStrExt;
    Some(PathBuf::from(std::ffi::OsStr::from_bytes(c.to_bytes())))
}

fn set_errno(e: c_int) {
    unsafe { *libc::__errno_location() = e };
}

/// Returns Some(errno) if this call must fail now. `name` identifies the call site.
fn tick(s: &mut Session, name: &'static str) -> Option<c_int> {
    let idx = s.calls;
    s.calls += 1;
    if s.log_calls {
        s.call_log.push(name);
    }
    if let Some((at, errno)) = s.fail_at {
        if at == idx {
            s.fail_at = None;
            s.fail_fired = Some(name.to_string());
            return Some(errno);
        }
    }
    None
}

fn under(s: &Session, p: &Path) -> bool {
    s.active && p.starts_with(&s.root)
}

unsafe fn do_open(dirfd: c_int, path: *const c_char, flags: c_int, mode: libc::mode_t) -> c_int {
    let p = cpath(path);
    let tracked = match (&p, dirfd) {
        (Some(p), d) if p.is_absolute() || d == libc::AT_FDCWD => {
            with(|s| under(s, p)).unwrap_or(false)
        }
        _ => false,
    };
    if tracked {
        let p = p.clone().expect("path");
        let creating = flags & libc::O_CREAT != 0;
        let writing = flags & (libc::O_WRONLY | libc::O_RDWR) != 0;
        let fail = with(|s| {
            if creating || writing || s.count_reads {
                tick(s, if creating { "open(create)" } else { "open" })
            } else {
                None
            }
        })
        .flatten();
        if let Some(e) = fail {
            set_errno(e);
            return -1;
        }
        let existed = creating && {
            let mut st: libc::stat = std::mem::zeroed();
            libc::syscall(libc::SYS_newfstatat, libc::AT_FDCWD, path, &mut st as *mut libc::stat, 0) == 0
        };
        let fd = libc::syscall(libc::SYS_openat, dirfd, path, flags, mode as c_int) as c_int;
        if fd >= 0 {
            with(|s| {
                s.fds.insert(fd, p.clone());
                if s.record && creating {
                    let trunc = flags & libc::O_TRUNC != 0;
                    if !existed || trunc {
                        s.trace.push(Ev::Create { path: p.clone(), trunc });
                    }
                } else if s.record && writing && flags & libc::O_TRUNC != 0 {
                    s.trace.push(Ev::Truncate { path: p.clone(), len: 0 });
                }
            });
        }
        fd
    } else {
        libc::syscall(libc::SYS_openat, dirfd, path, flags, mode as c_int) as c_int
    }
}

#[no_mangle]
pub unsafe extern "C" fn open(path: *const c_char, flags: c_int, mode: libc::mode_t) -> c_int {
    do_open(libc::AT_FDCWD, path, flags, mode)
}
#[no_mangle]
pub unsafe extern "C" fn open64(path: *const c_char, flags: c_int, mode: libc::mode_t) -> c_int {
    do_open(libc::AT_FDCWD, path, flags, mode)
}
#[no_mangle]
pub unsafe extern "C" fn openat(dirfd: c_int, path: *const c_char, flags: c_int, mode: libc::mode_t) -> c_int {
    do_open(dirfd, path, flags, mode)
}
#[no_mangle]
pub unsafe extern "C" fn openat64(dirfd: c_int, path: *const c_char, flags: c_int, mode: libc::mode_t) -> c_int {
    do_open(dirfd, path, flags, mode)
}
#[no_mangle]
pub unsafe extern "C" fn creat(path: *const c_char, mode: libc::mode_t) -> c_int {
    do_open(libc::AT_FDCWD, path, libc::O_CREAT | libc::O_WRONLY | libc::O_TRUNC, mode)
}

#[no_mangle]
pub unsafe extern "C" fn close(fd: c_int) -> c_int {
    with(|s| {
        s.fds.remove(&fd);
    });
    libc::syscall(libc::SYS_close, fd) as c_int
}

fn fd_path(fd: c_int) -> Option<PathBuf> {
    with(|s| if s.active { s.fds.get(&fd).cloned() } else { None }).flatten()
}

#[no_mangle]
pub unsafe extern "C" fn write(fd: c_int, buf: *const c_void, n: usize) -> isize {
    if let Some(p) = fd_path(fd) {
        if let Some(e) = with(|s| tick(s, "write")).flatten() {
            set_errno(e);
            return -1;
        }
        let r = libc::syscall(libc::SYS_write, fd, buf, n) as isize;
        if r > 0 {
            let pos = libc::syscall(libc::SYS_lseek, fd, 0 as c_long, libc::SEEK_CUR) as i64;
            let data = std::slice::from_raw_parts(buf as *const u8, r as usize).to_vec();
            with(|s| {
                if s.record {
                    s.trace.push(Ev::Write {
                        path: p,
                        off: (pos - r as i64).max(0) as u64,
                        data,
                    });
                }
            });
        }
        r
    } else {
        libc::syscall(libc::SYS_write, fd, buf, n) as isize
    }
}

#[no_mangle]
pub unsafe extern "C" fn pwrite64(fd: c_int, buf: *const c_void, n: usize, off: i64) -> isize {
    if let Some(p) = fd_path(fd) {
        if let Some(e) = with(|s| tick(s, "pwrite")).flatten() {
            set_errno(e);
            return -1;
        }
        let r = libc::syscall(libc::SYS_pwrite64, fd, buf, n, off) as isize;
        if r > 0 {
            let data = std::slice::from_raw_parts(buf as *const u8, r as usize).to_vec();
            with(|s| {
                if s.record {
                    s.trace.push(Ev::Write { path: p, off: off as u64, data });
                }
            });
        }
        r
    } else {
        libc::syscall(libc::SYS_pwrite64, fd, buf, n, off) as isize
    }
}

#[no_mangle]
pub unsafe extern "C" fn pwrite(fd: c_int, buf: *const c_void, n: usize, off: i64) -> isize {
    pwrite64(fd, buf, n, off)
}

#[no_mangle]
pub unsafe extern "C" fn writev(fd: c_int, iov: *const libc::iovec, cnt: c_int) -> isize {
    if let Some(p) = fd_path(fd) {
        if let Some(e) = with(|s| tick(s, "writev")).flatten() {
            set_errno(e);
            return -1;
        }
        let r = libc::syscall(libc::SYS_writev, fd, iov, cnt) as isize;
        if r > 0 {
            let pos = libc::syscall(libc::SYS_lseek, fd, 0 as c_long, libc::SEEK_CUR) as i64;
            let mut data = Vec::with_capacity(r as usize);
            let mut left = r as usize;
            for i in 0..cnt as usize {
                let v = &*iov.add(i);
                let take = v.iov_len.min(left);
                data.extend_from_slice(std::slice::from_raw_parts(v.iov_base as *const u8, take));
                left -= take;
                if left == 0 {
                    break;
                }
            }
            with(|s| {
                if s.record {
                    s.trace.push(Ev::Write {
                        path: p,
                        off: (pos - r as i64).max(0) as u64,
                        data,
                    });
                }
            });
        }
        r
    } else {
        libc::syscall(libc::SYS_writev, fd, iov, cnt) as isize
    }
}

#[no_mangle]
pub unsafe extern "C" fn read(fd: c_int, buf: *mut c_void, n: usize) -> isize {
    if fd_path(fd).is_some() {
        let fail = with(|s| if s.count_reads { tick(s, "read") } else { None }).flatten();
        if let Some(e) = fail {
            set_errno(e);
            return -1;
        }
    }
    libc::syscall(libc::SYS_read, fd, buf, n) as isize
}

#[no_mangle]
pub unsafe extern "C" fn pread64(fd: c_int, buf: *mut c_void, n: usize, off: i64) -> isize {
    if fd_path(fd).is_some() {
        let fail = with(|s| if s.count_reads { tick(s, "pread") } else { None }).flatten();
        if let Some(e) = fail {
            set_errno(e);
            return -1;
        }
    }
    libc::syscall(libc::SYS_pread64, fd, buf, n, off) as isize
}

#[no_mangle]
pub unsafe extern "C" fn pread(fd: c_int, buf: *mut c_void, n: usize, off: i64) -> isize {
    pread64(fd, buf, n, off)
}

unsafe fn do_sync(fd: c_int, nr: c_long, name: &'static str) -> c_int {
    if let Some(p) = fd_path(fd) {
        if let Some(e) = with(|s| tick(s, name)).flatten() {
            set_errno(e);
            return -1;
        }
        let r = libc::syscall(nr, fd) as c_int;
        if r == 0 {
            let mut st: libc::stat = std::mem::zeroed();
            let dir = libc::syscall(libc::SYS_fstat, fd, &mut st as *mut libc::stat) == 0
                && (st.st_mode & libc::S_IFMT) == libc::S_IFDIR;
            with(|s| {
                if s.record {
                    s.trace.push(Ev::Fsync { path: p, dir });
                }
            });
        }
        r
    } else {
        libc::syscall(nr, fd) as c_int
    }
}

#[no_mangle]
pub unsafe extern "C" fn fsync(fd: c_int) -> c_int {
    do_sync(fd, libc::SYS_fsync, "fsync")
}
#[no_mangle]
pub unsafe extern "C" fn fdatasync(fd: c_int) -> c_int {
    do_sync(fd, libc::SYS_fdatasync, "fdatasync")
}

#[no_mangle]
pub unsafe extern "C" fn ftruncate64(fd: c_int, len: i64) -> c_int {
    if let Some(p) = fd_path(fd) {
        if let Some(e) = with(|s| tick(s, "ftruncate")).flatten() {
            set_errno(e);
            return -1;
        }
        let r = libc::syscall(libc::SYS_ftruncate, fd, len) as c_int;
        if r == 0 {
            with(|s| {
                if s.record {
                    s.trace.push(Ev::Truncate { path: p, len: len as u64 });
                }
            });
        }
        r
    } else {
        libc::syscall(libc::SYS_ftruncate, fd, len) as c_int
    }
}
#[no_mangle]
pub unsafe extern "C" fn ftruncate(fd: c_int, len: i64) -> c_int {
    ftruncate64(fd, len)
}

unsafe fn do_rename(od: c_int, from: *const c_char, nd: c_int, to: *const c_char, flags: u32) -> c_int {
    let (pf, pt) = (cpath(from), cpath(to));
    let tracked = match (&pf, &pt) {
        (Some(a), Some(b)) => with(|s| under(s, a) || under(s, b)).unwrap_or(false),
        _ => false,
    };
    if tracked {
        if let Some(e) = with(|s| tick(s, "rename")).flatten() {
            set_errno(e);
            return -1;
        }
    }
    let r = libc::syscall(libc::SYS_renameat2, od, from, nd, to, flags) as c_int;
    if tracked && r == 0 {
        with(|s| {
            if s.record {
                s.trace.push(Ev::Rename {
                    from: pf.expect("from"),
                    to: pt.expect("to"),
                });
            }
        });
    }
    r
}

#[no_mangle]
pub unsafe extern "C" fn rename(from: *const c_char, to: *const c_char) -> c_int {
    do_rename(libc::AT_FDCWD, from, libc::AT_FDCWD, to, 0)
}
#[no_mangle]
pub unsafe extern "C" fn renameat(od: c_int, from: *const c_char, nd: c_int, to: *const c_char) -> c_int {
    do_rename(od, from, nd, to, 0)
}
#[no_mangle]
pub unsafe extern "C" fn renameat2(od: c_int, from: *const c_char, nd: c_int, to: *const c_char, flags: u32) -> c_int {
    do_rename(od, from, nd, to, flags)
}

unsafe fn do_unlink(dirfd: c_int, path: *const c_char, flags: c_int) -> c_int {
    let p = cpath(path);
    let tracked = p.as_ref().map_or(false, |p| with(|s| under(s, p)).unwrap_or(false));
    if tracked {
        if let Some(e) = with(|s| tick(s, if flags & libc::AT_REMOVEDIR != 0 { "rmdir" } else { "unlink" })).flatten() {
            set_errno(e);
            return -1;
        }
    }
    let r = libc::syscall(libc::SYS_unlinkat, dirfd, path, flags) as c_int;
    if tracked && r == 0 {
        with(|s| {
            if s.record {
                let p = p.expect("p");
                if flags & libc::AT_REMOVEDIR != 0 {
                    s.trace.push(Ev::Rmdir(p));
                } else {
                    s.trace.push(Ev::Unlink(p));
                }
            }
        });
    }
    r
}

#[no_mangle]
pub unsafe extern "C" fn unlink(path: *const c_char) -> c_int {
    do_unlink(libc::AT_FDCWD, path, 0)
}
#[no_mangle]
pub unsafe extern "C" fn unlinkat(dirfd: c_int, path: *const c_char, flags: c_int) -> c_int {
    do_unlink(dirfd, path, flags)
}
#[no_mangle]
pub unsafe extern "C" fn rmdir(path: *const c_char) -> c_int {
    do_unlink(libc::AT_FDCWD, path, libc::AT_REMOVEDIR)
}

unsafe fn do_mkdir(dirfd: c_int, path: *const c_char, mode: libc::mode_t) -> c_int {
    let p = cpath(path);
    let tracked = p.as_ref().map_or(false, |p| with(|s| under(s, p)).unwrap_or(false));
    if tracked {
        if let Some(e) = with(|s| tick(s, "mkdir")).flatten() {
            set_errno(e);
            return -1;
        }
    }
    let r = libc::syscall(libc::SYS_mkdirat, dirfd, path, mode as c_int) as c_int;
    if tracked && r == 0 {
        with(|s| {
            if s.record {
                s.trace.push(Ev::Mkdir(p.expect("p")));
            }
        });
    }
    r
}

#[no_mangle]
pub unsafe extern "C" fn mkdir(path: *const c_char, mode: libc::mode_t) -> c_int {
    do_mkdir(libc::AT_FDCWD, path, mode)
}
#[no_mangle]
pub unsafe extern "C" fn mkdirat(dirfd: c_int, path: *const c_char, mode: libc::mode_t) -> c_int {
    do_mkdir(dirfd, path, mode)
}

#[no_mangle]
pub unsafe extern "C" fn clock_gettime(clk: libc::clockid_t, ts: *mut libc::timespec) -> c_int {
    let r = libc::syscall(libc::SYS_clock_gettime, clk, ts) as c_int;
    if r == 0 && clk == libc::CLOCK_REALTIME && !ts.is_null() {
        let off = CLOCK_OFFSET_NS.try_with(|c| c.get()).unwrap_or(0);
        if off != 0 {
            let t = &mut *ts;
            let total = t.tv_sec as i128 * 1_000_000_000 + t.tv_nsec as i128 + off;
            t.tv_sec = (total / 1_000_000_000) as libc::time_t;
            t.tv_nsec = (total % 1_000_000_000) as c_long;
        }
    }
    r
}

// ---------------------------------------------------------------------------------------------
// Trace replay (self-check and crash image synthesis)

/// Apply events to a directory tree rooted at `dst` (paths are rebased from `root`).
pub fn apply_events(root: &Path, dst: &Path, evs: &[Ev]) -> std::io::Result<()> {
    use std::io::{Seek, SeekFrom, Write};
    let rb = |p: &Path| dst.join(p.strip_prefix(root).unwrap_or(p));
    for e in evs {
        match e {
            Ev::Marker(_) | Ev::Fsync { .. } => {}
            Ev::Mkdir(p) => {
                let _ = std::fs::create_dir_all(rb(p));
            }
            Ev::Create { path, trunc } => {
                let p = rb(path);
                if let Some(par) = p.parent() {
                    if !par.exists() {
                        continue;
                    }
                }
                let mut o = std::fs::OpenOptions::new();
                o.create(true).write(true);
                if *trunc {
                    o.truncate(true);
                }
                let _ = o.open(p);
            }
            Ev::Write { path, off, data } => {
                let p = rb(path);
                if let Ok(mut f) = std::fs::OpenOptions::new().write(true).open(p) {
                    f.seek(SeekFrom::Start(*off))?;
                    f.write_all(data)?;
                }
            }
            Ev::Rename { from, to } => {
                let _ = std::fs::rename(rb(from), rb(to));
            }
            Ev::Unlink(p) => {
                let _ = std::fs::remove_file(rb(p));
            }
            Ev::Rmdir(p) => {
                let _ = std::fs::remove_dir(rb(p));
            }
            Ev::Truncate { path, len } => {
                if let Ok(f) = std::fs::OpenOptions::new().write(true).open(rb(path)) {
                    let _ = f.set_len(*len);
                }
            }
        }
    }
    Ok(())
}

/// Compare two directory trees byte for byte; returns a description of the first difference.
pub fn diff_dirs(a: &Path, b: &Path) -> Option<String> {
    let la = crate::util::list_files(a);
    let lb = crate::util::list_files(b);
    if la != lb {
        return Some(format!("file lists differ: {la:?} vs {lb:?}"));
    }
    for f in la {
        let x = std::fs::read(a.join(&f)).unwrap_or_default();
        let y = std::fs::read(b.join(&f)).unwrap_or_default();
        if x != y {
            return Some(format!("file {f:?} differs ({} vs {} bytes)", x.len(), y.len()));
        }
    }
    None
}
