//! Drives proptest from a binary: parallel workers, shrinking, replay files, evidence.

use crate::exec::{Audits, Exec, Failure, Stats};
use crate::gen::GenProfile;
use crate::spec::Case;
use proptest::strategy::{Strategy, ValueTree};
use proptest::test_runner::{Config, RngSeed, TestCaseError, TestError, TestRunner};
use serde_json::json;
use std::collections::{BTreeMap, BTreeSet};
use std::path::{Path, PathBuf};
use std::sync::atomic::{AtomicBool, AtomicU64, Ordering};
use std::sync::{Arc, Mutex};
use std::time::Instant;

#[derive(Clone, Copy, Debug, PartialEq)]
pub enum Twin {
    None,
    /// run the same history on a Standard tree as well (case cfg must be Blob)
    StdVsBlob,
    /// run on every cfg of the case simultaneously, sharing one cache and descriptor table
    MultiCfg,
    /// second tree gets `remove` wherever the first gets `remove_weak`
    WeakStrong,
}

pub struct CheckSpec {
    pub id: &'static str,
    pub level: &'static str,
    pub gen: GenProfile,
    pub audits: Audits,
    pub twin: Twin,
    pub cases_quick: u32,
    pub cases_thorough: u32,
    pub ops_quick: usize,
    pub ops_thorough: usize,
    pub nontrivial: fn(&Stats) -> bool,
    pub rule: &'static str,
    pub assumptions: Vec<&'static str>,
    /// extra per-case hook run after all ops (property specific)
    pub finale: Option<fn(&mut Exec) -> Result<(), String>>,
    /// extra per-op hook (after the generic audits)
    pub per_op: Option<fn(&mut Exec, &crate::spec::Op) -> Result<(), String>>,
    /// case pre-processing (e.g. force shape)
    pub prepare: Option<fn(&mut Case)>,
}

thread_local! {
    static PANIC_MSG: std::cell::RefCell<Option<String>> = const { std::cell::RefCell::new(None) };
}

pub fn install_panic_hook() {
    std::panic::set_hook(Box::new(|info| {
        let msg = format!("{info}");
        let bt = std::backtrace::Backtrace::force_capture().to_string();
        let frames: Vec<&str> = bt
            .lines()
            .filter(|l| l.contains("lsm_tree::") || l.contains("lsmv::"))
            .take(8)
            .collect();
        PANIC_MSG.with(|m| *m.borrow_mut() = Some(format!("{msg} | {}", frames.join(" <- "))));
    }));
}

pub fn take_panic() -> Option<String> {
    PANIC_MSG.with(|m| m.borrow_mut().take())
}

static DIR_CTR: AtomicU64 = AtomicU64::new(0);

pub fn fresh_dir() -> PathBuf {
    let d = crate::util::scratch_root().join(format!("c{}", DIR_CTR.fetch_add(1, Ordering::Relaxed)));
    let _ = std::fs::remove_dir_all(&d);
    std::fs::create_dir_all(&d).expect("scratch dir");
    d
}

/// Run one case exactly as given (no per-property case preparation)
pub fn run_case_raw(spec: &CheckSpec, case: &Case) -> Result<Stats, Failure> {
    run_case_opt(spec, case, false)
}

/// Run one case; returns stats or the failure.
pub fn run_case(spec: &CheckSpec, case: &Case) -> Result<Stats, Failure> {
    run_case_opt(spec, case, true)
}

fn run_case_opt(spec: &CheckSpec, case: &Case, prepare: bool) -> Result<Stats, Failure> {
    let root = fresh_dir();
    let r = std::panic::catch_unwind(std::panic::AssertUnwindSafe(|| run_case_inner(spec, case, &root, prepare)));
    crate::util::rm_rf(&root);
    match r {
        Ok(r) => r,
        Err(_) => Err(Failure {
            op_index: usize::MAX,
            what: format!("panic: {}", take_panic().unwrap_or_default()),
        }),
    }
}

fn run_case_inner(spec: &CheckSpec, case: &Case, root: &Path, prepare: bool) -> Result<Stats, Failure> {
    let mut case = case.clone();
    if prepare {
        if let Some(p) = spec.prepare {
            p(&mut case);
        }
    }
    let case = &case;
    if case.keys.is_empty() || case.cfgs.is_empty() {
        return Ok(Stats::default());
    }
    let mut execs: Vec<Exec> = vec![];
    match spec.twin {
        Twin::None => {
            execs.push(Exec::new(&root.join("t0"), case, spec.audits.clone(), None));
        }
        Twin::StdVsBlob => {
            execs.push(Exec::new(&root.join("t0"), case, spec.audits.clone(), None));
            let mut c2 = case.clone();
            for c in c2.cfgs.iter_mut() {
                c.blob = None;
            }
            let mut a2 = spec.audits.clone();
            a2.blob_ptr = false;
            a2.gc_stats = false;
            execs.push(Exec::new(&root.join("t1"), &c2, a2, None));
        }
        Twin::MultiCfg => {
            let shared = Arc::new(crate::cfg::Shared::from_spec(&case.cfgs[0]));
            for i in 0..case.cfgs.len() {
                let mut ci = case.clone();
                ci.cfgs.rotate_left(i);
                execs.push(Exec::new(
                    &root.join(format!("t{i}")),
                    &ci,
                    spec.audits.clone(),
                    Some(shared.clone()),
                ));
            }
        }
        Twin::WeakStrong => {
            execs.push(Exec::new(&root.join("t0"), case, spec.audits.clone(), None));
            let mut e2 = Exec::new(&root.join("t1"), case, spec.audits.clone(), None);
            e2.weak_as_strong = true;
            execs.push(e2);
        }
    }
    for e in execs.iter_mut() {
        e.open().map_err(|what| Failure { op_index: 0, what })?;
    }
    let spec_id = spec.id;
    let weak_keys = (case.weak_keys as usize).min(case.keys.len());
    let fail = move |i: usize, what: String| Failure { op_index: i, what };
    // signature tagging for known findings (see known_findings.json)
    let tag = |execs: &[Exec], f: Failure| -> Failure {
        let mut f = f;
        if spec_id == "C13" {
            if let Some(k) = crate::exec::take_fail_key() {
                if let Some(idx) = execs[0].keys.iter().position(|x| x == &k) {
                    if idx < weak_keys && execs[0].kstate[idx].inserts >= 2 {
                        f.what = format!("[sig:weak-multigen] {}", f.what);
                    }
                }
            }
        }
        f
    };
    let trace = std::env::var("LSMV_TRACE").is_ok();
    let run = |execs: &mut Vec<Exec>| -> Result<(), Failure> {
    // initial audit (empty tree)
    for e in execs.iter_mut() {
        crate::audit::after_op(e).map_err(|w| fail(0, format!("after open: {w}")))?;
    }
    for (i, op) in case.ops.iter().enumerate() {
        // C11: when nothing is in memtables a reopen hits only ONE of the trees, the others keep the
        // shared cache / descriptor table warm (their logical content stays identical)
        let solo = spec.twin == Twin::MultiCfg
            && matches!(op, crate::spec::Op::Reopen { .. })
            && !execs[0].model.has_active()
            && !execs[0].model.has_sealed();
        let n_exec = execs.len();
        for (ti, e) in execs.iter_mut().enumerate() {
            if solo && ti != i % n_exec {
                e.stats.bump("reopen.solo_skipped");
                continue;
            }
            let r = e.apply(op);
            if trace {
                use lsm_tree::AbstractTree;
                let t = e.tree();
                let v = t.current_version();
                let lv: Vec<String> = v
                    .iter_levels()
                    .map(|l| {
                        l.iter()
                            .map(|r| format!("{:?}", r.iter().map(|t| t.id()).collect::<Vec<_>>()))
                            .collect::<Vec<_>>()
                            .join("|")
                    })
                    .collect();
                println!(
                    "TRACE tree#{ti} op#{i} {op:?} -> {:?}\n   seqno={} visible={} version={} free={} sealed={} levels={lv:?} blobs={:?} snaps={:?}\n   files={:?}",
                    r,
                    e.seqno.get(),
                    e.visible.get(),
                    v.id(),
                    t.version_free_list_len(),
                    t.sealed_memtable_count(),
                    v.blob_files.iter().map(|b| b.id()).collect::<Vec<_>>(),
                    e.snaps.iter().map(|s| s.s).collect::<Vec<_>>(),
                    crate::util::list_files(&e.dir),
                );
                if e.is_blob() {
                    for table in v.iter_tables() {
                        for it in table.iter().flatten() {
                            if it.key.value_type == lsm_tree::ValueType::Indirection {
                                println!(
                                    "   PTR table {} key {} seq {} -> {:?}",
                                    table.id(),
                                    crate::util::hex(&it.key.user_key),
                                    it.key.seqno,
                                    crate::blob::decode_pointer(&it.value)
                                );
                            }
                        }
                    }
                    for bf in v.blob_files.iter() {
                        if let Ok(fr) = crate::blob::parse_blob_file(bf.path()) {
                            for f in fr {
                                println!("   FRAME file {} off {} key {} seq {} len {}", bf.id(), f.offset, crate::util::hex(&f.key), f.seqno, f.real_len);
                            }
                        }
                    }
                }
            }
            r.map_err(|w| fail(i, format!("tree#{ti} op {op:?}: {w}")))?;
            crate::audit::after_op(e).map_err(|w| fail(i, format!("tree#{ti} after op {op:?}: {w}")))?;
            if let Some(h) = spec.per_op {
                h(e, op).map_err(|w| fail(i, format!("tree#{ti} after op {op:?}: {w}")))?;
            }
        }
        if execs.len() > 1 {
            cross_compare(execs).map_err(|w| fail(i, format!("after op {op:?}: {w}")))?;
        }
    }
    for (ti, e) in execs.iter_mut().enumerate() {
        crate::audit::at_end(e).map_err(|w| fail(case.ops.len(), format!("tree#{ti} at end: {w}")))?;
        if let Some(h) = spec.finale {
            h(e).map_err(|w| fail(case.ops.len(), format!("tree#{ti} finale: {w}")))?;
        }
    }
        Ok(())
    };
    if let Err(f) = run(&mut execs) {
        return Err(tag(&execs, f));
    }
    let mut stats = Stats::default();
    {
        // configuration diversity (C11)
        let c = &case.cfgs;
        for i in 0..c.len() {
            for j in (i + 1)..c.len() {
                let (a, b) = (&c[i], &c[j]);
                let d = [
                    a.block_size != b.block_size,
                    a.restart != b.restart,
                    (a.hash_ratio.iter().any(|x| *x > 0.0)) != (b.hash_ratio.iter().any(|x| *x > 0.0)),
                    a.index_part != b.index_part,
                    a.filter_part != b.filter_part,
                    a.filter != b.filter,
                    a.data_lz4 != b.data_lz4 || a.index_lz4 != b.index_lz4,
                    a.pin_index != b.pin_index || a.pin_filter != b.pin_filter,
                ]
                .iter()
                .filter(|x| **x)
                .count();
                if d >= 3 {
                    stats.bump("cfg.differ3");
                }
            }
        }
    }
    for e in &execs {
        stats.merge(&e.stats);
    }
    stats.ctr.retain(|k, _| !k.starts_with("blobfile.") && !k.starts_with("marks.last"));
    // drop trees before the directory is removed
    drop(execs);
    Ok(stats)
}

/// Twins must give identical user-visible answers (latest view: every pool key + full scan)
fn cross_compare(execs: &mut [Exec]) -> Result<(), String> {
    use lsm_tree::AbstractTree;
    let mut views = vec![];
    for e in execs.iter() {
        let s = e.visible.get();
        let v = crate::audit::snapshot_view(e, s)?;
        // keys whose answer the properties leave open are not compared
        let loose: BTreeSet<Vec<u8>> = e
            .model
            .taint
            .keys()
            .filter(|k| matches!(e.model.read(k, s), crate::model::Expect::Loose))
            .cloned()
            .collect();
        let n = e.tree().len(s, None).map_err(|er| format!("len Err {er:?}"))?;
        views.push((v, loose, n));
    }
    let (v0, l0, n0) = &views[0];
    for (i, (v, l, n)) in views.iter().enumerate().skip(1) {
        for (ki, k) in execs[0].keys.iter().enumerate() {
            if l0.contains(k) || l.contains(k) {
                continue;
            }
            if v0.points[ki] != v.points[ki] {
                crate::exec::note_fail_key(k);
                return Err(format!(
                    "twin trees disagree on get({}): tree#0 {} vs tree#{i} {}",
                    crate::util::hex(k),
                    crate::util::show_val(&v0.points[ki]),
                    crate::util::show_val(&v.points[ki])
                ));
            }
        }
        let f = |v: &crate::exec::SnapView, skip: &BTreeSet<Vec<u8>>, skip2: &BTreeSet<Vec<u8>>| {
            v.scan
                .iter()
                .filter(|(k, _)| !skip.contains(k) && !skip2.contains(k))
                .cloned()
                .collect::<Vec<_>>()
        };
        if f(v0, l0, l) != f(v, l0, l) {
            return Err(format!("twin trees disagree on the full scan (tree#0 vs tree#{i})"));
        }
        if l0.is_empty() && l.is_empty() && n0 != n {
            return Err(format!("twin trees disagree on len: {n0} vs {n}"));
        }
    }
    execs[0].stats.bump("twin.comparisons");
    Ok(())
}

#[derive(Clone, Debug)]
pub struct Known {
    pub property: String,
    pub signature: String,
    pub witness: String,
    pub what: String,
}

pub fn load_known(id: &str) -> Vec<Known> {
    let Ok(txt) = std::fs::read_to_string(crate::util::verif_root().join("known_findings.json")) else {
        return vec![];
    };
    let Ok(v) = serde_json::from_str::<serde_json::Value>(&txt) else {
        return vec![];
    };
    v["known"]
        .as_array()
        .map(|a| {
            a.iter()
                .filter(|e| e["property"].as_str() == Some(id))
                .map(|e| Known {
                    property: id.to_string(),
                    signature: e["signature"].as_str().unwrap_or("").to_string(),
                    witness: e["witness"].as_str().unwrap_or("").to_string(),
                    what: e["what"].as_str().unwrap_or("").to_string(),
                })
                .filter(|k| !k.signature.is_empty())
                .collect()
        })
        .unwrap_or_default()
}

pub struct Outcome {
    pub evaluations: u64,
    pub nontrivial: BTreeSet<u64>,
    pub hist: BTreeMap<String, u64>,
    pub samples: Vec<serde_json::Value>,
    pub failure: Option<(Case, Failure)>,
    pub wall: f64,
}

pub fn tier_is_thorough(tier: &str) -> bool {
    tier == "thorough"
}

pub fn case_hash(case: &Case) -> u64 {
    crate::util::fnv(serde_json::to_string(case).unwrap_or_default().as_bytes())
}

pub fn summarize_case(case: &Case) -> serde_json::Value {
    let mut c = case.clone();
    // keep samples readable
    for k in c.keys.iter_mut() {
        if k.len() > 48 {
            k.truncate(48);
        }
    }
    if c.ops.len() > 60 {
        c.ops.truncate(60);
    }
    serde_json::to_value(&c).unwrap_or(json!(null))
}

pub fn explore(spec: &CheckSpec, tier: &str, seed: u64) -> Outcome {
    let known = load_known(spec.id);
    let known = &known;
    let thorough = tier_is_thorough(tier);
    let total = std::env::var("LSMV_CASES")
        .ok()
        .and_then(|s| s.parse().ok())
        .unwrap_or(if thorough { spec.cases_thorough } else { spec.cases_quick });
    let mut gen = spec.gen.clone();
    gen.max_ops = if thorough { spec.ops_thorough } else { spec.ops_quick };
    let workers = std::thread::available_parallelism().map_or(8, |n| n.get()).min(16) as u32;
    let per = (total + workers - 1) / workers;
    let start = Instant::now();
    let stop = Arc::new(AtomicBool::new(false));
    let agg = Arc::new(Mutex::new((
        0u64,
        BTreeSet::<u64>::new(),
        BTreeMap::<String, u64>::new(),
        Vec::<serde_json::Value>::new(),
    )));
    let failure: Arc<Mutex<Option<(Case, Failure)>>> = Arc::new(Mutex::new(None));
    // watchdog: per-worker case start (ms since start), 0 = idle
    let beats: Arc<Vec<AtomicU64>> = Arc::new((0..workers).map(|_| AtomicU64::new(0)).collect());
    let limit_ms: u64 = std::env::var("LSMV_CASE_TIMEOUT_MS")
        .ok()
        .and_then(|s| s.parse().ok())
        .unwrap_or(600_000);
    {
        let beats = beats.clone();
        let stop = stop.clone();
        std::thread::spawn(move || loop {
            std::thread::sleep(std::time::Duration::from_millis(500));
            if stop.load(Ordering::Relaxed) {
                return;
            }
            let now = start.elapsed().as_millis() as u64;
            for b in beats.iter() {
                let t = b.load(Ordering::Relaxed);
                if t != 0 && now > t + limit_ms {
                    println!("WATCHDOG: a case ran longer than {limit_ms} ms; harness problem or hang (inconclusive)");
                    std::process::exit(2);
                }
            }
        });
    }
    std::thread::scope(|sc| {
        for w in 0..workers {
            let gen = gen.clone();
            let agg = agg.clone();
            let failure = failure.clone();
            let stop = stop.clone();
            let beats = beats.clone();
            sc.spawn(move || {
                let strat = crate::gen::case(&gen);
                let cfg = Config {
                    cases: per,
                    failure_persistence: None,
                    rng_seed: RngSeed::Fixed(seed.wrapping_mul(0x9E37_79B9_7F4A_7C15).wrapping_add(w as u64 * 7919 + 1)),
                    max_shrink_iters: if thorough { 4000 } else { 1500 },
                    max_global_rejects: 1,
                    ..Config::default()
                };
                let mut runner = TestRunner::new(cfg);
                let failed = std::cell::Cell::new(false);
                let res = runner.run(&strat, |case| {
                    if stop.load(Ordering::Relaxed) && !failed.get() {
                        return Ok(());
                    }
                    beats[w as usize].store(start.elapsed().as_millis() as u64 + 1, Ordering::Relaxed);
                    let r = run_case(spec, &case);
                    beats[w as usize].store(0, Ordering::Relaxed);
                    match r {
                        Ok(stats) => {
                            if !failed.get() {
                                let mut a = agg.lock().expect("agg");
                                a.0 += 1;
                                for (k, v) in &stats.ctr {
                                    *a.2.entry(k.clone()).or_insert(0) += v;
                                }
                                if (spec.nontrivial)(&stats) {
                                    let h = case_hash(&case);
                                    if a.1.insert(h) && a.3.len() < 3 {
                                        a.3.push(summarize_case(&case));
                                    }
                                }
                            }
                            Ok(())
                        }
                        Err(f) => {
                            if let Some(k) = known.iter().find(|k| f.what.contains(&k.signature)) {
                                // a listed finding: excluded from the search, counted
                                if !failed.get() {
                                    let mut a = agg.lock().expect("agg");
                                    *a.2.entry(format!("known_finding_hits.{}", k.signature)).or_insert(0) += 1;
                                }
                                return Ok(());
                            }
                            failed.set(true);
                            Err(TestCaseError::fail(f.what))
                        }
                    }
                });
                if let Err(TestError::Fail(reason, case)) = res {
                    stop.store(true, Ordering::Relaxed);
                    // re-run the shrunk case to get its exact failure text
                    let f = run_case(spec, &case).err().unwrap_or(Failure {
                        op_index: 0,
                        what: format!("{reason} [the shrunk case did not fail when it was run once more]"),
                    });
                    let mut g = failure.lock().expect("failure");
                    if g.is_none() {
                        *g = Some((case, f));
                    }
                }
            });
        }
    });
    stop.store(true, Ordering::Relaxed);
    let a = agg.lock().expect("agg");
    let f = failure.lock().expect("failure").clone();
    Outcome {
        evaluations: a.0,
        nontrivial: a.1.clone(),
        hist: a.2.clone(),
        samples: a.3.clone(),
        failure: f,
        wall: start.elapsed().as_secs_f64(),
    }
}

/// minimise further by brute-force op deletion (proptest's budget may leave slack)
pub fn extra_shrink(spec: &CheckSpec, case: &Case) -> Case {
    let mut best = case.clone();
    let mut changed = true;
    let mut budget = 300;
    while changed && budget > 0 {
        changed = false;
        let mut i = 0;
        while i < best.ops.len() && budget > 0 {
            let mut c = best.clone();
            c.ops.remove(i);
            budget -= 1;
            if run_case(spec, &c).is_err() {
                best = c;
                changed = true;
            } else {
                i += 1;
            }
        }
    }
    best
}

pub fn write_replay(id: &str, case: &Case, f: &Failure, extra: serde_json::Value) -> PathBuf {
    let dir = crate::util::verif_root().join("replays");
    let _ = std::fs::create_dir_all(&dir);
    let h = case_hash(case);
    let p = dir.join(format!("{id}-{h:016x}.json"));
    let v = json!({
        "property": id,
        "kind": "history",
        "case": case,
        "failure": { "op_index": f.op_index, "what": f.what },
        "extra": extra,
    });
    let _ = std::fs::write(&p, serde_json::to_string_pretty(&v).unwrap_or_default());
    p
}

pub fn write_evidence(
    id: &str,
    tier: &str,
    seed: u64,
    level: &str,
    coverage: serde_json::Value,
    assumptions: &[&str],
    wall: f64,
    violations: u64,
) {
    let dir = crate::util::verif_root().join("evidence");
    let _ = std::fs::create_dir_all(&dir);
    let v = json!({
        "property_id": id,
        "tier": tier,
        "seed": seed,
        "level": level,
        "coverage": coverage,
        "assumptions": assumptions,
        "wall_s": wall,
        "violations": violations,
    });
    let _ = std::fs::write(
        dir.join(format!("{id}.json")),
        serde_json::to_string_pretty(&v).unwrap_or_default(),
    );
}

/// Standard flow for a history-based check. Returns the process exit code.
pub fn run_history_check(spec: &CheckSpec, tier: &str, seed: u64) -> i32 {
    let out = explore(spec, tier, seed);
    let mut violations = 0;
    let mut code = 0;
    let mut replay_path = None;
    if let Some((case, f0)) = &out.failure {
        let small = extra_shrink(spec, case);
        let f = run_case(spec, &small).err().unwrap_or(Failure {
            op_index: 0,
            what: format!("{} [the minimised case did not fail when it was run once more]", f0.what),
        });
        if f.what.contains("HARNESS:") {
            let p = write_replay(spec.id, &small, &f, json!({"tier": tier, "seed": seed, "harness_problem": true}));
            println!("HARNESS problem (inconclusive, not a violation): {} [case saved as {}]", f.what, p.display());
            return 2;
        }
        let p = write_replay(spec.id, &small, &f, json!({"tier": tier, "seed": seed}));
        println!("FAILURE property={} op_index={} : {}", spec.id, f.op_index, f.what);
        println!("VIOLATION property={} replay={}", spec.id, p.display());
        replay_path = Some(p);
        violations = 1;
        code = 1;
    }
    let mut known_lines = vec![];
    for k in load_known(spec.id) {
        if let Ok(txt) = std::fs::read_to_string(crate::util::rebase(&k.witness)) {
            if let Ok(v) = serde_json::from_str::<serde_json::Value>(&txt) {
                if let Ok(mut case) = serde_json::from_value::<Case>(v["case"].clone()) {
                    case.multi_gen = true;
                    match run_case_raw(spec, &case) {
                        Err(f) if f.what.contains(&k.signature) => {
                            println!("KNOWN-FINDING: property={} {}", spec.id, k.what);
                            known_lines.push(k.signature.clone());
                        }
                        Err(f) => {
                            // the witness fails differently: that is a new violation
                            let p = write_replay(spec.id, &case, &f, json!({"tier": tier, "seed": seed, "note": "witness of a known finding failed with another signature"}));
                            println!("FAILURE property={} : {}", spec.id, f.what);
                            println!("VIOLATION property={} replay={}", spec.id, p.display());
                            violations += 1;
                            code = 1;
                        }
                        Ok(_) => {}
                    }
                }
            }
        }
    }
    let coverage = json!({
        "known_findings_reproduced": known_lines,
        "evaluations": out.evaluations,
        "distinct_nontrivial": out.nontrivial.len(),
        "rule": spec.rule,
        "samples": out.samples,
        "histogram": out.hist,
        "exhaustive": false,
        "replay": replay_path.map(|p| p.display().to_string()),
    });
    write_evidence(
        spec.id,
        tier,
        seed,
        spec.level,
        coverage,
        &spec.assumptions,
        out.wall,
        violations,
    );
    println!(
        "{} {}: {} cases, {} distinct non-trivial, {:.1}s, violations={}",
        spec.id,
        tier,
        out.evaluations,
        out.nontrivial.len(),
        out.wall,
        violations
    );
    if code == 0 && out.nontrivial.len() < 2 {
        println!("HARNESS: fewer than 2 non-trivial cases were generated; generator problem");
        return 2;
    }
    code
}

pub fn replay_history(spec: &CheckSpec, path: &Path) -> i32 {
    let txt = match std::fs::read_to_string(path) {
        Ok(t) => t,
        Err(e) => {
            println!("cannot read {path:?}: {e}");
            return 2;
        }
    };
    let v: serde_json::Value = match serde_json::from_str(&txt) {
        Ok(v) => v,
        Err(e) => {
            println!("bad replay file: {e}");
            return 2;
        }
    };
    let case: Case = match serde_json::from_value(v["case"].clone()) {
        Ok(c) => c,
        Err(e) => {
            println!("bad case in replay file: {e}");
            return 2;
        }
    };
    match run_case(spec, &case) {
        Ok(_) => {
            println!("replay passed (property held on this case)");
            0
        }
        Err(f) => {
            println!("FAILURE property={} op_index={} : {}", spec.id, f.op_index, f.what);
            println!("VIOLATION property={} replay={}", spec.id, path.display());
            1
        }
    }
}

#[allow(dead_code)]
fn _unused<T: Strategy>(s: T, r: &mut TestRunner) {
    let _ = s.new_tree(r).map(|t| t.current());
}
