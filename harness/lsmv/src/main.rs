use std::path::Path;

fn usage() -> ! {
    eprintln!("usage: lsmv check <ID> <quick|thorough> | lsmv replay <ID> <file>");
    std::process::exit(2);
}

fn main() {
    let args: Vec<String> = std::env::args().collect();
    if args.len() < 2 {
        usage();
    }
    let seed: u64 = std::env::var("VERIF_SEED")
        .ok()
        .and_then(|s| s.parse().ok())
        .unwrap_or(1);
    lsmv::runner::install_panic_hook();
    let code = match args[1].as_str() {
        "check" => {
            if args.len() < 4 {
                usage();
            }
            let id = args[2].as_str();
            let tier = args[3].as_str();
            match lsmv::props::spec(id) {
                Some(spec) => {
                    let mut code = lsmv::runner::run_history_check(&spec, tier, seed);
                    if id == "C20" && code == 0 {
                        let (c, extra) = lsmv::special::c20_crash_stage(seed, tier == "thorough");
                        code = c;
                        // fold the stage into the evidence file
                        let p = lsmv::util::verif_root().join("evidence/C20.json");
                        let p = p.as_path();
                        if let Ok(txt) = std::fs::read_to_string(p) {
                            if let Ok(mut v) = serde_json::from_str::<serde_json::Value>(&txt) {
                                if let (Some(cov), Some(e)) = (v["coverage"].as_object_mut(), extra.as_object()) {
                                    for (k, x) in e {
                                        cov.insert(k.clone(), x.clone());
                                    }
                                }
                                if c != 0 {
                                    v["violations"] = serde_json::json!(1);
                                }
                                let _ = std::fs::write(p, serde_json::to_string_pretty(&v).unwrap_or_default());
                            }
                        }
                    }
                    code
                }
                None => match lsmv::special::check(id, tier, seed) {
                    Some(c) => c,
                    None => {
                        eprintln!("unknown property {id}");
                        2
                    }
                },
            }
        }
        "fuzzdecode" => {
            // debugging aid: decode a libFuzzer input the way the fuzz targets do, print and run the case
            let data = std::fs::read(&args[2]).unwrap_or_default();
            let id = args.get(3).map(|s| s.as_str()).unwrap_or("C01");
            let spec = lsmv::props::spec(id).expect("spec");
            let mut g = spec.gen.clone();
            g.max_ops = 120;
            let c = lsmv::bytecase::decode_case(&g, &data);
            println!("decoded: {} keys, {} cfgs, {} ops", c.keys.len(), c.cfgs.len(), c.ops.len());
            if std::env::var("LSMV_TRACE").is_ok() {
                for (i, op) in c.ops.iter().enumerate() {
                    println!("  {i} {op:?}");
                }
            }
            match lsmv::runner::run_case(&spec, &c) {
                Ok(s) => {
                    println!("case passed; {} counters", s.ctr.len());
                    0
                }
                Err(f) => {
                    println!("FAILURE property={id} : {}", f.what);
                    1
                }
            }
        }
        "emptypulldown" => {
            // debugging aid: PullDown on empty levels must be harmless (C06 compactor scripts may hit it)
            use lsm_tree::AbstractTree;
            let d = lsmv::runner::fresh_dir();
            let t = lsm_tree::Config::new(&d, Default::default(), Default::default()).open().expect("open");
            for (a, b) in [(4u8, 5u8), (0, 1), (5, 6)] {
                let r = t.compact(std::sync::Arc::new(lsm_tree::compaction::PullDown(a, b)), 0);
                println!("PullDown({a},{b}) on an empty tree -> {r:?}; tables {}", t.table_count());
            }
            t.insert("a", "v", 0);
            t.flush_active_memtable(0).expect("flush");
            let r = t.compact(std::sync::Arc::new(lsm_tree::compaction::PullDown(4, 5)), 0);
            println!("PullDown(4,5) with data only in L0 -> {r:?}; tables {}", t.table_count());
            let r = t.compact(std::sync::Arc::new(lsm_tree::compaction::PullDown(0, 1)), 0);
            println!("PullDown(0,1) -> {r:?}; L1 tables {:?}", t.level_table_count(1));
            0
        }
        "c10worker" => {
            if args.len() < 3 {
                usage();
            }
            let c = lsmv::corrupt::worker_main(Path::new(&args[2]));
            std::process::exit(c);
        }
        "replay" => {
            if args.len() < 4 {
                usage();
            }
            let id = args[2].as_str();
            let is_special_kind = std::fs::read_to_string(&args[3])
                .map(|t| t.contains("\"kind\": \"crash-reclaim\"") || t.contains("\"kind\": \"fault-reclaim\""))
                .unwrap_or(false);
            match lsmv::props::spec(id).filter(|_| !is_special_kind) {
                Some(spec) => lsmv::runner::replay_history(&spec, Path::new(&args[3])),
                None => match lsmv::special::replay(id, Path::new(&args[3])) {
                    Some(c) => c,
                    None => {
                        eprintln!("unknown property {id}");
                        2
                    }
                },
            }
        }
        _ => usage(),
    };
    lsmv::util::rm_rf(&lsmv::util::scratch_root());
    std::process::exit(code);
}
