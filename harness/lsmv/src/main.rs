fn main() { lsmv::hello(); }
