//! CfgSpec -> lsm_tree::Config

use crate::spec::{CfgSpec, FilterSpec};
use lsm_tree::config::{
    BlockSizePolicy, BloomConstructionPolicy, CompressionPolicy, FilterPolicy, FilterPolicyEntry,
    HashRatioPolicy, PinningPolicy, RestartIntervalPolicy,
};
use lsm_tree::{
    Cache, CompressionType, Config, DescriptorTable, KvSeparationOptions, SequenceNumberCounter,
};
use std::path::Path;
use std::sync::Arc;

fn comp(b: bool) -> CompressionType {
    if b {
        CompressionType::Lz4
    } else {
        CompressionType::None
    }
}

pub struct Shared {
    pub cache: Arc<Cache>,
    pub fd: Option<Arc<DescriptorTable>>,
}

impl Shared {
    pub fn from_spec(spec: &CfgSpec) -> Self {
        Self {
            cache: Arc::new(Cache::with_capacity_bytes(spec.cache_bytes)),
            fd: spec.fd_table.map(|n| Arc::new(DescriptorTable::new(n))),
        }
    }
}

pub fn build(
    spec: &CfgSpec,
    path: &Path,
    seqno: SequenceNumberCounter,
    visible: SequenceNumberCounter,
    shared: &Shared,
    filter: Option<Arc<dyn lsm_tree::compaction::Factory>>,
) -> Config {
    let mut c = Config::new(path, seqno, visible)
        .use_cache(shared.cache.clone())
        .use_descriptor_table(shared.fd.clone())
        .data_block_size_policy(BlockSizePolicy::new(spec.block_size.clone()))
        .data_block_restart_interval_policy(RestartIntervalPolicy::new(spec.restart.clone()))
        .data_block_hash_ratio_policy(HashRatioPolicy::new(spec.hash_ratio.clone()))
        .index_block_partitioning_policy(PinningPolicy::new(spec.index_part.clone()))
        .filter_block_partitioning_policy(PinningPolicy::new(spec.filter_part.clone()))
        .index_block_pinning_policy(PinningPolicy::new(spec.pin_index.clone()))
        .filter_block_pinning_policy(PinningPolicy::new(spec.pin_filter.clone()))
        .filter_policy(FilterPolicy::new(
            spec.filter
                .iter()
                .map(|f| match f {
                    FilterSpec::None => FilterPolicyEntry::None,
                    FilterSpec::Bpk(b) => {
                        FilterPolicyEntry::Bloom(BloomConstructionPolicy::BitsPerKey(*b))
                    }
                    FilterSpec::Fpr(p) => {
                        FilterPolicyEntry::Bloom(BloomConstructionPolicy::FalsePositiveRate(*p))
                    }
                })
                .collect::<Vec<_>>(),
        ))
        .expect_point_read_hits(spec.expect_hits)
        .data_block_compression_policy(CompressionPolicy::new(
            spec.data_lz4.iter().map(|b| comp(*b)).collect::<Vec<_>>(),
        ))
        .index_block_compression_policy(CompressionPolicy::new(
            spec.index_lz4.iter().map(|b| comp(*b)).collect::<Vec<_>>(),
        ))
        .with_compaction_filter_factory(filter);
    if let Some(b) = &spec.blob {
        c = c.with_kv_separation(Some(
            KvSeparationOptions::default()
                .separation_threshold(b.threshold)
                .file_target_size(b.target)
                .staleness_threshold(b.staleness)
                .age_cutoff(b.age_cutoff)
                .compression(comp(b.lz4)),
        ));
    }
    c
}
