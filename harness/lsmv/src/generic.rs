//! Generic proptest driver for case types other than `Case` (tables, FIFO histories, crash/fault
//! plans, schedules). Same contract as runner::explore.

use crate::exec::{Failure, Stats};
use crate::runner::Known;
use proptest::strategy::Strategy;
use proptest::test_runner::{Config, RngSeed, TestCaseError, TestError, TestRunner};
use serde::Serialize;
use serde_json::json;
use std::collections::{BTreeMap, BTreeSet};
use std::path::PathBuf;
use std::sync::atomic::{AtomicBool, AtomicU64, Ordering};
use std::sync::{Arc, Mutex};
use std::time::Instant;

pub struct GOutcome<V> {
    pub evaluations: u64,
    pub nontrivial: BTreeSet<u64>,
    pub hist: BTreeMap<String, u64>,
    pub samples: Vec<serde_json::Value>,
    pub failure: Option<(V, Failure)>,
    pub wall: f64,
}

pub fn workers() -> u32 {
    let n = std::thread::available_parallelism().map_or(8, |n| n.get()).min(16) as u32;
    std::env::var("LSMV_WORKERS")
        .ok()
        .and_then(|s| s.parse().ok())
        .unwrap_or(n)
}

#[allow(clippy::too_many_arguments)]
pub fn explore_generic<V, S, R, N, Z>(
    strat: impl Fn() -> S + Sync,
    cases: u32,
    seed: u64,
    shrink_iters: u32,
    run: R,
    nontrivial: N,
    known: &[Known],
    summarize: Z,
    case_timeout_ms: u64,
) -> GOutcome<V>
where
    S: Strategy<Value = V>,
    V: Clone + std::fmt::Debug + Serialize + Send,
    R: Fn(&V) -> Result<Stats, Failure> + Sync,
    N: Fn(&Stats) -> bool + Sync,
    Z: Fn(&V) -> serde_json::Value + Sync,
{
    let cases = std::env::var("LSMV_CASES")
        .ok()
        .and_then(|s| s.parse().ok())
        .unwrap_or(cases);
    let case_timeout_ms: u64 = std::env::var("LSMV_CASE_TIMEOUT_MS")
        .ok()
        .and_then(|s| s.parse().ok())
        .unwrap_or(case_timeout_ms);
    let workers = workers().min(cases.max(1));
    let per = (cases + workers - 1) / workers;
    let start = Instant::now();
    let stop = Arc::new(AtomicBool::new(false));
    let agg = Arc::new(Mutex::new((
        0u64,
        BTreeSet::<u64>::new(),
        BTreeMap::<String, u64>::new(),
        Vec::<serde_json::Value>::new(),
    )));
    let failure: Arc<Mutex<Option<(V, Failure)>>> = Arc::new(Mutex::new(None));
    let beats: Arc<Vec<AtomicU64>> = Arc::new((0..workers).map(|_| AtomicU64::new(0)).collect());
    {
        let beats = beats.clone();
        let stop = stop.clone();
        std::thread::spawn(move || loop {
            std::thread::sleep(std::time::Duration::from_millis(500));
            if stop.load(Ordering::Relaxed) {
                return;
            }
            let now = start.elapsed().as_millis() as u64;
            for b in beats.iter() {
                let t = b.load(Ordering::Relaxed);
                if t != 0 && now > t + case_timeout_ms {
                    println!("WATCHDOG: a case ran longer than {case_timeout_ms} ms; harness problem or hang (inconclusive)");
                    std::process::exit(2);
                }
            }
        });
    }
    std::thread::scope(|sc| {
        for w in 0..workers {
            let agg = agg.clone();
            let failure = failure.clone();
            let stop = stop.clone();
            let beats = beats.clone();
            let strat = &strat;
            let run = &run;
            let nontrivial = &nontrivial;
            let summarize = &summarize;
            sc.spawn(move || {
                let strat = strat();
                let cfg = Config {
                    cases: per,
                    failure_persistence: None,
                    rng_seed: RngSeed::Fixed(
                        seed.wrapping_mul(0x9E37_79B9_7F4A_7C15)
                            .wrapping_add(w as u64 * 7919 + 1),
                    ),
                    max_shrink_iters: shrink_iters,
                    ..Config::default()
                };
                let mut runner = TestRunner::new(cfg);
                let failed = std::cell::Cell::new(false);
                let res = runner.run(&strat, |case| {
                    if stop.load(Ordering::Relaxed) && !failed.get() {
                        return Ok(());
                    }
                    beats[w as usize].store(start.elapsed().as_millis() as u64 + 1, Ordering::Relaxed);
                    let r = run(&case);
                    beats[w as usize].store(0, Ordering::Relaxed);
                    match r {
                        Ok(stats) => {
                            if !failed.get() {
                                let mut a = agg.lock().expect("agg");
                                a.0 += 1;
                                for (k, v) in &stats.ctr {
                                    *a.2.entry(k.clone()).or_insert(0) += v;
                                }
                                if nontrivial(&stats) {
                                    let h = crate::util::fnv(
                                        serde_json::to_string(&case).unwrap_or_default().as_bytes(),
                                    );
                                    if a.1.insert(h) && a.3.len() < 3 {
                                        a.3.push(summarize(&case));
                                    }
                                }
                            }
                            Ok(())
                        }
                        Err(f) => {
                            if let Some(k) = known.iter().find(|k| f.what.contains(&k.signature)) {
                                if !failed.get() {
                                    let mut a = agg.lock().expect("agg");
                                    *a.2
                                        .entry(format!("known_finding_hits.{}", k.signature))
                                        .or_insert(0) += 1;
                                }
                                return Ok(());
                            }
                            failed.set(true);
                            Err(TestCaseError::fail(f.what))
                        }
                    }
                });
                if let Err(TestError::Fail(reason, case)) = res {
                    stop.store(true, Ordering::Relaxed);
                    let f = run(&case).err().unwrap_or(Failure {
                        op_index: 0,
                        what: format!("{reason} [the shrunk case did not fail when it was run once more]"),
                    });
                    let mut g = failure.lock().expect("failure");
                    if g.is_none() {
                        *g = Some((case, f));
                    }
                }
            });
        }
    });
    stop.store(true, Ordering::Relaxed);
    let a = agg.lock().expect("agg");
    let f = failure.lock().expect("failure").take();
    GOutcome {
        evaluations: a.0,
        nontrivial: a.1.clone(),
        hist: a.2.clone(),
        samples: a.3.clone(),
        failure: f,
        wall: start.elapsed().as_secs_f64(),
    }
}

pub fn write_replay_generic<V: Serialize>(id: &str, kind: &str, case: &V, f: &Failure, extra: serde_json::Value) -> PathBuf {
    let dir = crate::util::verif_root().join("replays");
    let _ = std::fs::create_dir_all(&dir);
    let txt = serde_json::to_string(case).unwrap_or_default();
    let h = crate::util::fnv(txt.as_bytes());
    let p = dir.join(format!("{id}-{h:016x}.json"));
    let v = json!({
        "property": id,
        "kind": kind,
        "case": case,
        "failure": { "op_index": f.op_index, "what": f.what },
        "extra": extra,
    });
    let _ = std::fs::write(&p, serde_json::to_string_pretty(&v).unwrap_or_default());
    p
}

/// Print result lines, write evidence, return exit code.
#[allow(clippy::too_many_arguments)]
pub fn finish_generic<V: Serialize>(
    id: &str,
    kind: &str,
    tier: &str,
    seed: u64,
    level: &str,
    rule: &str,
    assumptions: &[&str],
    out: GOutcome<V>,
    extra_cov: serde_json::Value,
    known_lines: Vec<String>,
) -> i32 {
    let mut violations = 0;
    let mut code = 0;
    let mut replay_path = None;
    if let Some((case, f)) = &out.failure {
        if f.what.contains("HARNESS:") {
            // a problem of the machinery itself (shim self-check, copy failure, scheduler deadlock, worker
            // without progress): inconclusive, never a violation
            let p = write_replay_generic(id, kind, case, f, json!({"tier": tier, "seed": seed, "harness_problem": true}));
            println!("HARNESS problem (inconclusive, not a violation): {} [case saved as {}]", f.what, p.display());
            return 2;
        }
        let p = write_replay_generic(id, kind, case, f, json!({"tier": tier, "seed": seed}));
        println!("FAILURE property={} op_index={} : {}", id, f.op_index, f.what);
        println!("VIOLATION property={} replay={}", id, p.display());
        replay_path = Some(p);
        violations = 1;
        code = 1;
    }
    let mut coverage = json!({
        "known_findings_reproduced": known_lines,
        "evaluations": out.evaluations,
        "distinct_nontrivial": out.nontrivial.len(),
        "rule": rule,
        "samples": out.samples,
        "histogram": out.hist,
        "exhaustive": false,
        "replay": replay_path.map(|p| p.display().to_string()),
    });
    if let (Some(c), Some(e)) = (coverage.as_object_mut(), extra_cov.as_object()) {
        for (k, v) in e {
            c.insert(k.clone(), v.clone());
        }
    }
    crate::runner::write_evidence(id, tier, seed, level, coverage, assumptions, out.wall, violations);
    println!(
        "{} {}: {} cases, {} distinct non-trivial, {:.1}s, violations={}",
        id,
        tier,
        out.evaluations,
        out.nontrivial.len(),
        out.wall,
        violations
    );
    if code == 0 && out.nontrivial.len() < 2 {
        println!("HARNESS: fewer than 2 non-trivial cases were generated; generator problem");
        return 2;
    }
    code
}
