//! C19: FIFO compaction on append-only monotonic histories, with a virtual clock.

use crate::cfg::{self, Shared};
use crate::exec::{Failure, Stats};
use crate::spec::{value_len, CfgSpec};
use crate::util::hex;
use lsm_tree::{AbstractTree, AnyTree, SeqNo, SequenceNumberCounter};
use proptest::collection::vec;
use proptest::prelude::*;
use serde::{Deserialize, Serialize};
use std::collections::BTreeMap;
use std::path::Path;
use std::sync::Arc;

#[derive(Serialize, Deserialize, Clone, Debug)]
pub enum FStep {
    Flush { n: u8, len: u8 },
    Clock { secs: u8 },
    Fifo { limit: u8, ttl: u8 },
    Reopen,
}

#[derive(Serialize, Deserialize, Clone, Debug)]
pub struct FifoCase {
    pub cfg: CfgSpec,
    pub steps: Vec<FStep>,
    /// keys strictly decreasing over time instead of increasing (both are the documented FIFO use)
    #[serde(default)]
    pub descending: bool,
}

pub fn strategy(max_steps: usize) -> impl Strategy<Value = FifoCase> {
    let step = prop_oneof![
        10 => (1u8..6, 0u8..240).prop_map(|(n, len)| FStep::Flush { n, len }),
        5 => (0u8..40).prop_map(|secs| FStep::Clock { secs }),
        5 => (0u8..10, 0u8..8).prop_map(|(limit, ttl)| FStep::Fifo { limit, ttl }),
        1 => Just(FStep::Reopen),
    ];
    (
        crate::gen::cfg_spec(crate::gen::BlobMode::Either, false),
        vec(step, 3..=max_steps),
        any::<bool>(),
    )
        .prop_map(|(cfg, steps, descending)| FifoCase { cfg, steps, descending })
}

fn now_ns() -> u128 {
    std::time::SystemTime::now()
        .duration_since(std::time::UNIX_EPOCH)
        .map(|d| d.as_nanos())
        .unwrap_or(0)
}

pub fn run(case: &FifoCase) -> Result<Stats, Failure> {
    let root = crate::runner::fresh_dir();
    let r = std::panic::catch_unwind(std::panic::AssertUnwindSafe(|| run_inner(case, &root)));
    #[cfg(feature = "shim")]
    crate::shim::set_clock_offset_secs(0);
    crate::util::rm_rf(&root);
    match r {
        Ok(Ok(s)) => Ok(s),
        Ok(Err((i, what))) => Err(Failure { op_index: i, what }),
        Err(_) => Err(Failure {
            op_index: usize::MAX,
            what: format!("panic: {}", crate::runner::take_panic().unwrap_or_default()),
        }),
    }
}

struct TableInfo {
    id: u64,
    created_at: u128,
    keys: Vec<Vec<u8>>,
}

fn tables(t: &AnyTree) -> Result<Vec<TableInfo>, String> {
    let v = t.current_version();
    let mut out = vec![];
    for table in v.iter_tables() {
        let mut keys = vec![];
        for it in table.iter() {
            let it = it.map_err(|e| format!("Table::iter: {e:?}"))?;
            keys.push(it.key.user_key.to_vec());
        }
        out.push(TableInfo {
            id: table.id(),
            created_at: *table.metadata.created_at,
            keys,
        });
    }
    Ok(out)
}

fn disk_bytes(t: &AnyTree) -> u64 {
    let v = t.current_version();
    let mut n = 0;
    for table in v.iter_tables() {
        n += std::fs::metadata(&*table.path).map(|m| m.len()).unwrap_or(0);
    }
    for bf in v.blob_files.iter() {
        n += std::fs::metadata(bf.path()).map(|m| m.len()).unwrap_or(0);
    }
    n
}

fn run_inner(case: &FifoCase, root: &Path) -> Result<Stats, (usize, String)> {
    let mut stats = Stats::default();
    let dir = root.join("t");
    let shared = Shared::from_spec(&case.cfg);
    let seqno = SequenceNumberCounter::default();
    let visible = SequenceNumberCounter::default();
    let open = |seqno: &SequenceNumberCounter, visible: &SequenceNumberCounter| {
        cfg::build(&case.cfg, &dir, seqno.clone(), visible.clone(), &shared, None)
            .open()
            .map_err(|e| (0usize, format!("open: {e:?}")))
    };
    let mut tree = open(&seqno, &visible)?;
    let mut model: BTreeMap<Vec<u8>, Vec<u8>> = BTreeMap::new();
    let mut dropped_keys: std::collections::BTreeSet<Vec<u8>> = Default::default();
    let mut counter: u32 = 0;
    let mut clock: u64 = 0;
    for (i, st) in case.steps.iter().enumerate() {
        let err = |w: String| (i, format!("step {st:?}: {w}"));
        match st {
            FStep::Flush { n, len } => {
                for _ in 0..*n {
                    counter += 1;
                    let key = if case.descending {
                        (u32::MAX - counter).to_be_bytes().to_vec()
                    } else {
                        counter.to_be_bytes().to_vec()
                    };
                    let l = value_len(*len).max(4);
                    let mut v = vec![0u8; l];
                    v[..4].copy_from_slice(&counter.to_le_bytes());
                    for (j, b) in v.iter_mut().enumerate().skip(4) {
                        *b = (counter as usize + j / 16) as u8;
                    }
                    let s = seqno.next();
                    tree.insert(key.clone(), v.clone(), s);
                    visible.fetch_max(s + 1);
                    model.insert(key, v);
                }
                tree.flush_active_memtable(0)
                    .map_err(|e| err(format!("flush: {e:?}")))?;
                stats.bump("f.flush");
            }
            FStep::Clock { secs } => {
                clock += *secs as u64;
                #[cfg(feature = "shim")]
                crate::shim::set_clock_offset_secs(clock);
                stats.bump("f.clock");
            }
            FStep::Reopen => {
                drop(tree);
                tree = open(&seqno, &visible)?;
                stats.bump("f.reopen");
            }
            FStep::Fifo { limit, ttl } => {
                if tree.l0_run_count() > 1 {
                    return Err(err("L0 is not a single run although keys are monotonic (harness precondition)".into()));
                }
                let before = tables(&tree).map_err(&err)?;
                let total = disk_bytes(&tree);
                let smallest = {
                    let v = tree.current_version();
                    v.iter_tables()
                        .map(|t| std::fs::metadata(&*t.path).map(|m| m.len()).unwrap_or(0))
                        .min()
                        .unwrap_or(0)
                };
                // the tree's own public measure of its size (what "within its size limit" refers to);
                // `total` (stat of the files) is an upper bound of it
                let ds = tree.disk_space();
                let limit_bytes: u64 = match limit {
                    0 => 0,
                    1 => ds / 2,
                    2 => ds,
                    3 => ds + 1,
                    4 => u64::MAX,
                    5 => ds.saturating_sub(smallest),
                    6 => 1,
                    7 => ds.saturating_mul(2),
                    8 => ds.saturating_sub(1),
                    _ => total,
                };
                if ds == limit_bytes {
                    stats.bump("f.limit_exactly_at_size");
                }
                let now_before = now_ns();
                let oldest_age_s = before
                    .iter()
                    .map(|t| now_before.saturating_sub(t.created_at) / 1_000_000_000)
                    .max()
                    .unwrap_or(0) as u64;
                let ttl_s: Option<u64> = match ttl {
                    0 | 1 => None,
                    2 => Some(0),
                    3 => Some(1),
                    4 => Some(oldest_age_s.max(1)),
                    5 => Some(oldest_age_s / 2 + 1),
                    6 => Some(oldest_age_s + 30),
                    _ => Some(60),
                };
                let strat = lsm_tree::compaction::Fifo::new(limit_bytes, ttl_s);
                tree.compact(Arc::new(strat), 0)
                    .map_err(|e| err(format!("compact(Fifo) Err: {e:?}")))?;
                let now_after = now_ns();
                let after = tables(&tree).map_err(&err)?;
                let after_ids: Vec<u64> = after.iter().map(|t| t.id).collect();
                let before_ids: Vec<u64> = before.iter().map(|t| t.id).collect();
                for id in &after_ids {
                    if !before_ids.contains(id) {
                        return Err(err(format!("FIFO created table {id}")));
                    }
                }
                let removed: Vec<&TableInfo> = before.iter().filter(|t| !after_ids.contains(&t.id)).collect();
                let retained: Vec<&TableInfo> = before.iter().filter(|t| after_ids.contains(&t.id)).collect();
                let ttl_ns = ttl_s.filter(|s| *s > 0).map(|s| s as u128 * 1_000_000_000);
                let certainly_expired = |t: &TableInfo| ttl_ns.map_or(false, |x| t.created_at <= now_before.saturating_sub(x));
                let possibly_expired = |t: &TableInfo| ttl_ns.map_or(false, |x| t.created_at <= now_after.saturating_sub(x));
                for r in &removed {
                    if certainly_expired(r) {
                        stats.bump("f.removed_expired");
                        continue;
                    }
                    for t in &retained {
                        if r.created_at > t.created_at {
                            return Err(err(format!(
                                "FIFO removed table {} (created {}) although the older table {} (created {}) was retained and {} had not exceeded the TTL {:?}",
                                r.id, r.created_at, t.id, t.created_at, r.id, ttl_s
                            )));
                        }
                    }
                }
                if !removed.is_empty()
                    && !before.iter().any(possibly_expired)
                    && ds <= limit_bytes
                {
                    return Err(err(format!(
                        "FIFO removed tables {:?} although the tree (disk_space() = {ds} bytes, {total} bytes of files) is within its limit {limit_bytes} and nothing exceeded the TTL {ttl_s:?}",
                        removed.iter().map(|t| t.id).collect::<Vec<_>>()
                    )));
                }
                // within the size limit only the TTL can justify a removal: a table that cannot have exceeded
                // the TTL (clock read after the call) must stay ("drops only the oldest tables")
                if ds <= limit_bytes {
                    for r in &removed {
                        if !possibly_expired(r) {
                            return Err(err(format!(
                                "FIFO removed table {} (created {}) although it had not exceeded the TTL {ttl_s:?} and the tree (disk_space() = {ds}) is within its limit {limit_bytes}",
                                r.id, r.created_at
                            )));
                        }
                    }
                    if !removed.is_empty() && !retained.is_empty() {
                        stats.bump("f.ttl_only_partial_drop");
                    }
                }
                for r in &removed {
                    for k in &r.keys {
                        dropped_keys.insert(k.clone());
                        model.remove(k);
                    }
                }
                if !removed.is_empty() && !retained.is_empty() {
                    stats.bump("f.partial_drop");
                    if case.descending {
                        stats.bump("f.partial_drop_descending_keys");
                    }
                }
                if !removed.is_empty() {
                    stats.bump("f.dropped");
                }
                if removed.is_empty() {
                    stats.bump("f.noop");
                }
                stats.bump("f.fifo");
            }
        }
        // every key of every retained table reads its value
        let s = visible.get();
        for (k, v) in &model {
            let got = tree
                .get(k, s)
                .map_err(|e| (i, format!("after {st:?}: get({}) Err {e:?}", hex(k))))?;
            if got.as_deref() != Some(v.as_slice()) {
                return Err((
                    i,
                    format!(
                        "after {st:?}: key {} of a retained table reads {:?}, expected its value",
                        hex(k),
                        got.map(|g| g.len())
                    ),
                ));
            }
        }
        let n = tree
            .len(SeqNo::MAX, None)
            .map_err(|e| (i, format!("len Err {e:?}")))?;
        if n != model.len() {
            return Err((i, format!("after {st:?}: len() = {n}, retained keys = {}", model.len())));
        }
    }
    drop(tree);
    Ok(stats)
}

pub fn nontrivial(s: &Stats) -> bool {
    s.get("f.partial_drop") > 0
}
