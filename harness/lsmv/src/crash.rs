//! C05: crash-image synthesis from the recorded file-system mutation trace.
//!
//! Persistence model: file *content* is durable up to the file's last fsync; a directory entry
//! operation (create/rename/unlink/mkdir) is durable once its directory was fsynced afterwards.
//! Everything else may or may not have reached the disk.

use crate::exec::{Audits, Exec, Failure, Stats};
use crate::model::Expect;
use crate::shim::Ev;
use crate::spec::{Case, Op};
use crate::util::hex;
use lsm_tree::{AbstractTree, Guard, SeqNo, SequenceNumberCounter};
use std::collections::BTreeMap;
use std::path::{Path, PathBuf};

type Dump = Vec<(Vec<u8>, Expect)>;

#[derive(Clone, Debug)]
struct Inode {
    /// content at the last fsync (None = never synced)
    synced: Option<Vec<u8>>,
    /// writes issued since the last fsync: (offset, data) and truncations (len)
    pending: Vec<Pend>,
    /// content with every issued write applied
    data: Vec<u8>,
}

#[derive(Clone, Debug)]
enum Pend {
    Write(u64, Vec<u8>),
    Trunc(u64),
}

#[derive(Clone, Debug)]
enum DirOp {
    Link(String, usize),
    Unlink(String),
    Rename(String, String),
    Mkdir(String),
    Rmdir(String),
}

#[derive(Clone, Debug, Default)]
struct DirLog {
    ops: Vec<DirOp>,
    /// number of ops covered by the last fsync of this directory
    synced: usize,
}

/// File-system state reconstructed from a trace prefix
#[derive(Clone, Debug, Default)]
struct FsState {
    inodes: Vec<Inode>,
    /// live namespace (all issued ops applied): relative path -> inode
    names: BTreeMap<PathBuf, usize>,
    dirs: BTreeMap<PathBuf, DirLog>, // relative dir path ("" = root)
}

fn parent_and_name(rel: &Path) -> (PathBuf, String) {
    (
        rel.parent().map(|p| p.to_path_buf()).unwrap_or_default(),
        rel.file_name().map(|n| n.to_string_lossy().to_string()).unwrap_or_default(),
    )
}

fn apply_write(data: &mut Vec<u8>, off: u64, d: &[u8]) {
    let off = off as usize;
    if data.len() < off + d.len() {
        data.resize(off + d.len(), 0);
    }
    data[off..off + d.len()].copy_from_slice(d);
}

impl FsState {
    fn new() -> Self {
        let mut s = Self::default();
        s.dirs.insert(PathBuf::new(), DirLog::default());
        s
    }

    fn apply(&mut self, root: &Path, e: &Ev) {
        let rel = |p: &Path| p.strip_prefix(root).unwrap_or(p).to_path_buf();
        match e {
            Ev::Marker(_) => {}
            Ev::Mkdir(p) => {
                let r = rel(p);
                if r.as_os_str().is_empty() {
                    // the tree's own directory: its entry is taken as durable
                    return;
                }
                let (par, name) = parent_and_name(&r);
                self.dirs.entry(par).or_default().ops.push(DirOp::Mkdir(name));
                self.dirs.entry(r).or_default();
            }
            Ev::Rmdir(p) => {
                let r = rel(p);
                let (par, name) = parent_and_name(&r);
                self.dirs.entry(par).or_default().ops.push(DirOp::Rmdir(name));
            }
            Ev::Create { path, trunc } => {
                let r = rel(path);
                if let Some(&ino) = self.names.get(&r) {
                    if *trunc {
                        self.inodes[ino].data.clear();
                        self.inodes[ino].pending.push(Pend::Trunc(0));
                    }
                } else {
                    let ino = self.inodes.len();
                    self.inodes.push(Inode {
                        synced: None,
                        pending: vec![],
                        data: vec![],
                    });
                    self.names.insert(r.clone(), ino);
                    let (par, name) = parent_and_name(&r);
                    self.dirs.entry(par).or_default().ops.push(DirOp::Link(name, ino));
                }
            }
            Ev::Write { path, off, data } => {
                if let Some(&ino) = self.names.get(&rel(path)) {
                    apply_write(&mut self.inodes[ino].data, *off, data);
                    self.inodes[ino].pending.push(Pend::Write(*off, data.clone()));
                }
            }
            Ev::Truncate { path, len } => {
                if let Some(&ino) = self.names.get(&rel(path)) {
                    self.inodes[ino].data.resize(*len as usize, 0);
                    self.inodes[ino].pending.push(Pend::Trunc(*len));
                }
            }
            Ev::Fsync { path, dir } => {
                let r = rel(path);
                if *dir {
                    let d = self.dirs.entry(r).or_default();
                    d.synced = d.ops.len();
                } else if let Some(&ino) = self.names.get(&r) {
                    let i = &mut self.inodes[ino];
                    i.synced = Some(i.data.clone());
                    i.pending.clear();
                }
            }
            Ev::Rename { from, to } => {
                let (rf, rt) = (rel(from), rel(to));
                if let Some(ino) = self.names.remove(&rf) {
                    self.names.insert(rt.clone(), ino);
                }
                let (pf, nf) = parent_and_name(&rf);
                let (pt, nt) = parent_and_name(&rt);
                if pf == pt {
                    self.dirs.entry(pf).or_default().ops.push(DirOp::Rename(nf, nt));
                } else {
                    // not issued by lsm-tree; model as unlink + link
                    if let Some(&ino) = self.names.get(&rt) {
                        self.dirs.entry(pt).or_default().ops.push(DirOp::Link(nt, ino));
                    }
                    self.dirs.entry(pf).or_default().ops.push(DirOp::Unlink(nf));
                }
            }
            Ev::Unlink(p) => {
                let r = rel(p);
                self.names.remove(&r);
                let (par, name) = parent_and_name(&r);
                self.dirs.entry(par).or_default().ops.push(DirOp::Unlink(name));
            }
        }
    }
}

/// Tiny deterministic generator: a pure function of its seed (no state outside the case)
struct Det(u64);
impl Det {
    fn next(&mut self) -> u64 {
        self.0 = self.0.wrapping_mul(6364136223846793005).wrapping_add(1442695040888963407);
        let mut x = self.0;
        x ^= x >> 33;
        x = x.wrapping_mul(0xff51afd7ed558ccd);
        x ^= x >> 33;
        x
    }
    fn below(&mut self, n: u64) -> u64 {
        if n == 0 {
            0
        } else {
            self.next() % n
        }
    }
}

#[derive(Clone, Copy, Debug, PartialEq)]
pub enum Outcome {
    /// everything issued is on disk (process kill)
    All,
    /// only what was fsynced
    Synced,
    /// per directory a random prefix of the un-synced entry ops, per file a random prefix of the un-synced writes
    RandPrefix(u64),
    /// every un-synced entry op independently kept or lost, files as RandPrefix
    RandIndep(u64),
}

/// Materialise the image of `fs` under `outcome` into `dst`. Returns true if the image differs
/// from All (i.e. something was actually lost).
fn materialise(fs: &FsState, outcome: Outcome, dst: &Path) -> std::io::Result<()> {
    let mut det = Det(match outcome {
        Outcome::RandPrefix(s) | Outcome::RandIndep(s) => s,
        _ => 0,
    });
    // namespace per directory
    let mut tree: BTreeMap<PathBuf, BTreeMap<String, Option<usize>>> = BTreeMap::new(); // name -> Some(inode) | None = subdir
    for (dir, log) in &fs.dirs {
        let mut ns: BTreeMap<String, Option<usize>> = BTreeMap::new();
        let keep: Vec<bool> = match outcome {
            Outcome::All => vec![true; log.ops.len()],
            Outcome::Synced => (0..log.ops.len()).map(|i| i < log.synced).collect(),
            Outcome::RandPrefix(_) => {
                let extra = det.below((log.ops.len() - log.synced) as u64 + 1) as usize;
                (0..log.ops.len()).map(|i| i < log.synced + extra).collect()
            }
            Outcome::RandIndep(_) => (0..log.ops.len())
                .map(|i| i < log.synced || det.below(2) == 0)
                .collect(),
        };
        for (op, k) in log.ops.iter().zip(keep) {
            if !k {
                continue;
            }
            match op {
                DirOp::Link(n, ino) => {
                    ns.insert(n.clone(), Some(*ino));
                }
                DirOp::Unlink(n) => {
                    ns.remove(n);
                }
                DirOp::Rename(a, b) => {
                    if let Some(x) = ns.remove(a) {
                        ns.insert(b.clone(), x);
                    }
                }
                DirOp::Mkdir(n) => {
                    ns.insert(n.clone(), None);
                }
                DirOp::Rmdir(n) => {
                    ns.remove(n);
                }
            }
        }
        tree.insert(dir.clone(), ns);
    }
    // write out, starting at the root; unreachable subdirs are skipped
    fn emit(
        fs: &FsState,
        tree: &BTreeMap<PathBuf, BTreeMap<String, Option<usize>>>,
        dir: &Path,
        dst: &Path,
        outcome: Outcome,
        det: &mut Det,
    ) -> std::io::Result<()> {
        std::fs::create_dir_all(dst.join(dir))?;
        let Some(ns) = tree.get(dir) else { return Ok(()) };
        for (name, ent) in ns {
            match ent {
                None => emit(fs, tree, &dir.join(name), dst, outcome, det)?,
                Some(ino) => {
                    let i = &fs.inodes[*ino];
                    let content = match outcome {
                        Outcome::All => i.data.clone(),
                        Outcome::Synced => i.synced.clone().unwrap_or_default(),
                        Outcome::RandPrefix(_) | Outcome::RandIndep(_) => {
                            let mut c = i.synced.clone().unwrap_or_default();
                            let n = det.below(i.pending.len() as u64 + 1) as usize;
                            for (j, p) in i.pending.iter().take(n).enumerate() {
                                match p {
                                    Pend::Write(off, d) => {
                                        if j + 1 == n && d.len() > 1 && det.below(2) == 0 {
                                            let l = 1 + det.below(d.len() as u64 - 1) as usize;
                                            apply_write(&mut c, *off, &d[..l]);
                                        } else {
                                            apply_write(&mut c, *off, d);
                                        }
                                    }
                                    Pend::Trunc(l) => c.resize(*l as usize, 0),
                                }
                            }
                            c
                        }
                    };
                    std::fs::write(dst.join(dir).join(name), content)?;
                }
            }
        }
        Ok(())
    }
    emit(fs, &tree, Path::new(""), dst, outcome, &mut det)
}

fn dump_of(ex: &Exec, m: &crate::model::Model) -> Dump {
    let mut m = m.clone();
    m.reopen(u64::MAX / 2);
    ex.keys.iter().map(|k| (k.clone(), m.read(k, SeqNo::MAX))).collect()
}

fn durable_dump(ex: &Exec) -> Dump {
    dump_of(ex, &ex.model)
}

thread_local! {
    /// C20 stage: also demand that a recovered image holds no unreferenced table/blob/version file
    static RECLAIM: std::cell::Cell<bool> = const { std::cell::Cell::new(false) };
}

pub fn reclaim_check_on() -> bool {
    RECLAIM.with(|c| c.get())
}

pub fn set_reclaim_check(on: bool) {
    RECLAIM.with(|c| c.set(on));
}

/// Open the image and dump it: per pool key (value, seqno), plus the scan.
fn open_and_dump(case: &Case, dir: &Path) -> Result<Vec<Option<(Vec<u8>, u64)>>, String> {
    let shared = crate::cfg::Shared::from_spec(&case.cfgs[0]);
    let cfg = crate::cfg::build(
        &case.cfgs[0],
        dir,
        SequenceNumberCounter::default(),
        SequenceNumberCounter::default(),
        &shared,
        None,
    );
    let t = cfg.open().map_err(|e| format!("Config::open failed: {e:?}"))?;
    if RECLAIM.with(|c| c.get()) {
        crate::audit::reclamation_of(dir, &t, "[C20] right after opening a crash image")
            .map_err(|e| format!("[C20] {e}"))?;
    }
    let mut out = vec![];
    for k in &case.keys {
        let v = t
            .get(k, SeqNo::MAX)
            .map_err(|e| format!("get({}) Err: {e:?}", hex(k)))?;
        let ie = t
            .get_internal_entry(k, SeqNo::MAX)
            .map_err(|e| format!("get_internal_entry Err: {e:?}"))?;
        out.push(match (v, ie) {
            (Some(v), Some(e)) => Some((v.to_vec(), e.key.seqno)),
            (None, None) => None,
            _ => return Err(format!("get and get_internal_entry disagree on {}", hex(k))),
        });
    }
    // the scan must agree with the point reads
    let mut scan = BTreeMap::new();
    for g in t.iter(SeqNo::MAX, None) {
        let (k, v) = g.into_inner().map_err(|e| format!("scan Err: {e:?}"))?;
        scan.insert(k.to_vec(), v.to_vec());
    }
    for (k, o) in case.keys.iter().zip(out.iter()) {
        if scan.get(k) != o.as_ref().map(|x| &x.0) {
            return Err(format!("scan and get disagree on key {}", hex(k)));
        }
    }
    if scan.len() != out.iter().filter(|o| o.is_some()).count() {
        return Err("scan holds keys outside the pool".into());
    }
    drop(t);
    Ok(out)
}

fn matches(d: &Dump, got: &[Option<(Vec<u8>, u64)>], ever: &crate::model::Model) -> Result<(), String> {
    for ((k, e), g) in d.iter().zip(got.iter()) {
        match e {
            Expect::Exact(x) => {
                if x != g {
                    return Err(format!(
                        "key {}: expected {:?}, recovered {:?}",
                        hex(k),
                        x.as_ref().map(|(v, s)| (hex(&v[..v.len().min(6)]), *s)),
                        g.as_ref().map(|(v, s)| (hex(&v[..v.len().min(6)]), *s))
                    ));
                }
            }
            Expect::Loose => {
                if let Some((v, _)) = g {
                    if !ever.was_ever_written(k, v) {
                        return Err(format!("key {}: recovered a value never written for it", hex(k)));
                    }
                }
            }
        }
    }
    Ok(())
}

pub fn run(case: &Case, thorough: bool) -> Result<Stats, Failure> {
    let root = crate::runner::fresh_dir();
    let r = std::panic::catch_unwind(std::panic::AssertUnwindSafe(|| run_inner(case, &root, thorough)));
    let _ = crate::shim::end();
    crate::util::rm_rf(&root);
    match r {
        Ok(r) => r,
        Err(_) => Err(Failure {
            op_index: usize::MAX,
            what: format!("panic: {}", crate::runner::take_panic().unwrap_or_default()),
        }),
    }
}

fn run_inner(case: &Case, root: &Path, thorough: bool) -> Result<Stats, Failure> {
    if case.keys.is_empty() {
        return Ok(Stats::default());
    }
    let dir = root.join("t0");
    let mut ex = Exec::new(&dir, case, Audits::default(), None);
    let fail = |i: usize, what: String| Failure { op_index: i, what };
    // --- phase 1: run the history under the recording shim
    crate::shim::begin(&dir, true);
    let mut dumps: Vec<Dump> = vec![];
    // legitimate intermediate states of multi-step ops, per stage
    let mut mids: Vec<Vec<Dump>> = vec![vec![]];
    // stage 0 = creating the tree
    crate::shim::marker(0);
    ex.open().map_err(|w| fail(0, w))?;
    dumps.push(durable_dump(&ex)); // dumps[0]: after create
    for (i, op) in case.ops.iter().enumerate() {
        crate::shim::marker(i as u32 + 1);
        ex.apply(op).map_err(|w| fail(i, format!("op {op:?}: {w}")))?;
        dumps.push(durable_dump(&ex)); // dumps[i+1]: after op i
        mids.push(ex.mid_models.iter().map(|m| dump_of(&ex, m)).collect());
    }
    mids.push(vec![]);
    // final stage: dropping the tree (deletes files of released versions)
    crate::shim::marker(case.ops.len() as u32 + 1);
    let model = ex.model.clone();
    let mut stats = ex.stats.clone();
    ex.tree = None;
    dumps.push(dumps.last().cloned().expect("dump"));
    let sess = crate::shim::end().ok_or_else(|| fail(0, "shim session lost".into()))?;
    let trace = sess.trace;
    // --- self-check: the complete trace reproduces the real directory byte for byte
    {
        let chk = root.join("selfcheck");
        crate::shim::apply_events(&dir, &chk, &trace).map_err(|e| fail(0, format!("HARNESS: trace replay: {e}")))?;
        if let Some(d) = crate::shim::diff_dirs(&dir, &chk) {
            return Err(fail(usize::MAX - 1, format!("HARNESS: shim trace does not reproduce the directory: {d}")));
        }
        crate::util::rm_rf(&chk);
    }
    // --- phase 2: enumerate crash points
    let events: Vec<&Ev> = trace.iter().collect();
    let n_mut = events.iter().filter(|e| !matches!(e, Ev::Marker(_))).count();
    stats.add("crash.mutations", n_mut as u64);
    let cap = if thorough { 1500 } else { 600 };
    let k_rand = if thorough { 3 } else { 1 };
    let case_seed = crate::runner::case_hash(case);
    let mut fs = FsState::new();
    let mut stage = 0usize; // index into dumps of the state BEFORE the op in flight
    let mut mut_idx = 0usize;
    let mut at_boundary = true; // no mutation of the in-flight stage applied yet
    let img = root.join("img");
    let mut images = 0u64;
    let mut check = |fs: &FsState, outcome: Outcome, stage: usize, at_boundary: bool, desc: &str, stats: &mut Stats| -> Result<(), Failure> {
        crate::util::rm_rf(&img);
        materialise(fs, outcome, &img).map_err(|e| fail(0, format!("HARNESS: materialise: {e}")))?;
        images += 1;
        let got = open_and_dump(case, &img).map_err(|w| {
            fail(
                stage,
                format!("crash {desc} outcome {outcome:?}: the directory cannot be reopened/read: {w}"),
            )
        })?;
        // stage s: before = dumps[s-1] (s = 0: creating the tree, before == after == empty), after = dumps[s]
        let before = &dumps[stage.saturating_sub(1)];
        let after = dumps.get(stage).unwrap_or(before);
        let mb = matches(before, &got, &model);
        let ma = matches(after, &got, &model);
        if at_boundary {
            // the previous op has returned: exactly its result, nothing of the next op has started
            if let Err(w) = &mb {
                return Err(fail(
                    stage,
                    format!("crash {desc} outcome {outcome:?}: a completed operation was undone or state is mixed: {w}"),
                ));
            }
        } else if mb.is_err()
            && ma.is_err()
            && !mids.get(stage).map_or(false, |v| v.iter().any(|d| matches(d, &got, &model).is_ok()))
        {
            return Err(fail(
                stage,
                format!(
                    "crash {desc} outcome {outcome:?}: recovered state is neither before ({}) nor after ({}) the interrupted op",
                    mb.err().unwrap_or_default(),
                    ma.err().unwrap_or_default()
                ),
            ));
        }
        // recovery is idempotent and leaves an openable directory
        let again = open_and_dump(case, &img).map_err(|w| {
            fail(stage, format!("crash {desc} outcome {outcome:?}: second open after recovery fails: {w}"))
        })?;
        if again != got {
            return Err(fail(stage, format!("crash {desc} outcome {outcome:?}: second open yields a different state")));
        }
        if !at_boundary {
            stats.bump("crash.images_inside_op");
            if before != after {
                stats.bump("crash.images_inside_state_changing_op");
            }
        }
        Ok(())
    };
    let stride = if n_mut > cap { 3 } else { 1 };
    for e in events {
        match e {
            Ev::Marker(m) => {
                stage = *m as usize;
                at_boundary = true;
                // boundary image: everything before has returned
                let desc = format!("at boundary before stage {stage} (after {mut_idx} mutations)");
                for (j, o) in [Outcome::All, Outcome::Synced].into_iter().enumerate() {
                    let _ = j;
                    check(&fs, o, stage, true, &desc, &mut stats)?;
                }
                for r in 0..k_rand {
                    let seed = case_seed ^ ((mut_idx as u64) << 8) ^ r ^ 0xB0;
                    check(&fs, Outcome::RandPrefix(seed), stage, true, &desc, &mut stats)?;
                    check(&fs, Outcome::RandIndep(seed ^ 0x55), stage, true, &desc, &mut stats)?;
                }
                continue;
            }
            Ev::Write { path, off, data } if data.len() > 1 && (stride == 1 || mut_idx % stride == 0) => {
                // torn final write
                for l in [1, data.len() / 2, data.len() - 1] {
                    if l == 0 || l >= data.len() {
                        continue;
                    }
                    let mut f2 = fs.clone();
                    f2.apply(
                        &dir,
                        &Ev::Write {
                            path: path.clone(),
                            off: *off,
                            data: data[..l].to_vec(),
                        },
                    );
                    let desc = format!("inside stage {stage} with mutation #{mut_idx} torn at {l}/{} bytes", data.len());
                    check(&f2, Outcome::All, stage.saturating_sub(0), false, &desc, &mut stats)?;
                }
            }
            _ => {}
        }
        fs.apply(&dir, e);
        mut_idx += 1;
        at_boundary = false;
        if stride > 1 && mut_idx % stride != 0 {
            continue;
        }
        let desc = format!("inside stage {stage} after mutation #{mut_idx} ({})", ev_name(e));
        check(&fs, Outcome::All, stage, false, &desc, &mut stats)?;
        check(&fs, Outcome::Synced, stage, false, &desc, &mut stats)?;
        for r in 0..k_rand {
            let seed = case_seed ^ ((mut_idx as u64) << 8) ^ r;
            check(&fs, Outcome::RandPrefix(seed), stage, false, &desc, &mut stats)?;
            check(&fs, Outcome::RandIndep(seed ^ 0x55), stage, false, &desc, &mut stats)?;
        }
    }
    stats.add("crash.images", images);
    Ok(stats)
}

fn ev_name(e: &Ev) -> String {
    match e {
        Ev::Marker(m) => format!("marker {m}"),
        Ev::Mkdir(p) => format!("mkdir {:?}", p.file_name().unwrap_or_default()),
        Ev::Create { path, .. } => format!("create {:?}", path.file_name().unwrap_or_default()),
        Ev::Write { path, data, .. } => format!("write {:?} {}B", path.file_name().unwrap_or_default(), data.len()),
        Ev::Fsync { path, dir } => format!("fsync{} {:?}", if *dir { "(dir)" } else { "" }, path.file_name().unwrap_or_default()),
        Ev::Rename { from, to } => format!("rename {:?}->{:?}", from.file_name().unwrap_or_default(), to.file_name().unwrap_or_default()),
        Ev::Unlink(p) => format!("unlink {:?}", p.file_name().unwrap_or_default()),
        Ev::Rmdir(p) => format!("rmdir {:?}", p.file_name().unwrap_or_default()),
        Ev::Truncate { path, len } => format!("truncate {:?} {len}", path.file_name().unwrap_or_default()),
    }
}

pub fn nontrivial(s: &Stats) -> bool {
    s.get("crash.images_inside_state_changing_op") > 0
}

pub fn op_allowed(op: &Op) -> bool {
    !matches!(op, Op::Scan(_) | Op::SnapOpen | Op::SnapRelease { .. } | Op::Fifo { .. } | Op::Clock { .. })
}
