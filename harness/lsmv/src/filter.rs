//! C17: a compaction filter whose verdict is a generated total function of (key, value) and which
//! logs every call.

use crate::exec::FilterCall;
use crate::spec::{value_len, VerdictSpec};
use lsm_tree::compaction::filter::Context;
use lsm_tree::compaction::{CompactionFilter, Factory, ItemAccessor, Verdict};
use std::sync::{Arc, Mutex};

pub fn verdict_for(verdicts: &[VerdictSpec], key: &[u8], value: &[u8]) -> VerdictSpec {
    let mut buf = key.to_vec();
    buf.push(0xAB);
    buf.extend_from_slice(&value[..value.len().min(64)]);
    let h = crate::util::fnv(&buf);
    verdicts[(h % verdicts.len() as u64) as usize].clone()
}

pub fn replacement(key: &[u8], value: &[u8], class: u8) -> Vec<u8> {
    let len = value_len(class).max(9);
    let mut buf = key.to_vec();
    buf.push(0xCD);
    buf.extend_from_slice(&value[..value.len().min(64)]);
    let h = crate::util::fnv(&buf).to_le_bytes();
    let mut out = Vec::with_capacity(len);
    out.push(b'R');
    out.extend_from_slice(&h);
    while out.len() < len {
        out.push(h[out.len() % 8] ^ 0x5A);
    }
    out
}

struct F {
    verdicts: Vec<VerdictSpec>,
    log: Arc<Mutex<Vec<FilterCall>>>,
}

impl CompactionFilter for F {
    fn filter_item(&mut self, item: ItemAccessor<'_>, ctx: &Context) -> lsm_tree::Result<Verdict> {
        let key = item.key().to_vec();
        // always touches the value: being shown a tombstone trips the crate's own unreachable!
        let value = item.value()?.to_vec();
        let v = verdict_for(&self.verdicts, &key, &value);
        let (verdict, repl) = match &v {
            VerdictSpec::Keep => (Verdict::Keep, None),
            VerdictSpec::Remove => (Verdict::Remove, None),
            VerdictSpec::RemoveWeak => (Verdict::RemoveWeak, None),
            VerdictSpec::Destroy => (Verdict::Destroy, None),
            VerdictSpec::Replace(c) => {
                let r = replacement(&key, &value, *c);
                (Verdict::ReplaceValue(r.clone().into()), Some(r))
            }
        };
        self.log.lock().expect("log").push(FilterCall {
            key,
            value,
            verdict: v,
            replacement: repl,
            is_last_level: ctx.is_last_level,
        });
        Ok(verdict)
    }
}

struct Fac {
    verdicts: Vec<VerdictSpec>,
    log: Arc<Mutex<Vec<FilterCall>>>,
}

impl std::panic::RefUnwindSafe for Fac {}

impl Factory for Fac {
    fn name(&self) -> &str {
        "lsmv-filter"
    }
    fn make_filter(&self, _ctx: &Context) -> Box<dyn CompactionFilter> {
        Box::new(F {
            verdicts: self.verdicts.clone(),
            log: self.log.clone(),
        })
    }
}

pub fn factory(
    verdicts: &[VerdictSpec],
    log: Arc<Mutex<Vec<FilterCall>>>,
    _blob_threshold: Option<u32>,
) -> Option<Arc<dyn Factory>> {
    if verdicts.is_empty() {
        None
    } else {
        Some(Arc::new(Fac {
            verdicts: verdicts.to_vec(),
            log,
        }))
    }
}
