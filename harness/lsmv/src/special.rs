//! Checks that do not use the history `Case` type.

use crate::exec::Failure;
use crate::generic::{explore_generic, finish_generic};
use serde_json::json;
use std::path::Path;

const ASSUME_TABLE: [&str; 2] = [
    "streams are strictly ordered (key asc, seqno desc), keys 1..65535 bytes, seqnos < 2^63 (what every caller of table::Writer guarantees)",
    "bounded sizes; not a proof",
];

pub fn check(id: &str, tier: &str, seed: u64) -> Option<i32> {
    let thorough = tier == "thorough";
    match id {
        "C12" => {
            let max_entries = if thorough { 5000 } else { 600 };
            let cases = if thorough { 200_000 } else { 16_000 };
            let out = explore_generic(
                || crate::tablecheck::mixed_strategy(max_entries),
                cases,
                seed,
                if thorough { 3000 } else { 1200 },
                crate::tablecheck::run,
                crate::tablecheck::nontrivial,
                &[],
                |c: &crate::tablecheck::TableCase| {
                    let mut c = c.clone();
                    c.entries.truncate(12);
                    for e in c.entries.iter_mut() {
                        e.key.truncate(32);
                    }
                    serde_json::to_value(&c).unwrap_or(json!(null))
                },
                600_000,
            );
            Some(finish_generic(
                "C12",
                "table",
                tier,
                seed,
                "exploration",
                "a strictly ordered multi-version stream (1-8 versions per key, Value/Tombstone/WeakTombstone/Indirection, shared prefixes up to 200 bytes, keys up to 6 KiB, values up to 70 KiB, dense runs of >254 tiny entries) is written with generated writer settings (block size 1-65536, restart interval 1-255, hash ratio 0-8, full or partitioned index/filter with partition size 1-4096, bloom policy incl. none, lz4) and recovered with generated reader settings (pinning, cache 0/16 MiB, descriptor table none/1/10, global seqno 0 or G). Oracle = the stream itself: scan(), iter(), iter().rev(), range(bounds) consumed from both ends, get(k, s) for every key and every s in {0, sigma, sigma+1 (+G), MAX}, absent neighbours, metadata. Non-trivial = >=3 data blocks, a multi-version key, and an entry larger than the block size or >=2 index partitions. Distinct = hash of the case.",
                &ASSUME_TABLE,
                out,
                json!({}),
                vec![],
            ))
        }
        "C19" => {
            let cases = if thorough { 300_000 } else { 60_000 };
            let out = explore_generic(
                || crate::fifo::strategy(if thorough { 60 } else { 30 }),
                cases,
                seed,
                if thorough { 3000 } else { 1200 },
                crate::fifo::run,
                crate::fifo::nontrivial,
                &[],
                |c: &crate::fifo::FifoCase| serde_json::to_value(c).unwrap_or(json!(null)),
                600_000,
            );
            Some(finish_generic(
                "C19",
                "fifo",
                tier,
                seed,
                "exploration",
                "append-only histories with strictly monotonic keys (increasing in half of the cases, decreasing in the other half - both are the documented FIFO use) on standard and blob trees: flushes of 1-5 new keys with the harness-owned virtual clock (clock_gettime interposition) advanced 0-40 s between them, then compact(Fifo(limit, ttl)) with limit drawn around the tree's own size measure disk_space() (0, half, exactly, +1, -1, minus the smallest table, twice, the stat size of the files, MAX) and ttl in {None, 0, 1 s, oldest age, half of it, beyond it, 60 s}; repeated; reopen. Oracle: no table is created; no removed table is newer than a retained one unless it had certainly exceeded the TTL (clock read before the call); nothing is removed when nothing can have exceeded the TTL (clock read after the call) and disk_space() is within the limit; while disk_space() is within the limit every removed table must possibly have exceeded the TTL; every key of every retained table reads its value after every step and after reopen; len() equals the number of retained keys. Non-trivial = a FIFO call removed some tables and retained others. Distinct = hash of the case.",
                &["FIFO is used as documented: new keys only, monotonic order, no other compaction (choose() asserts a disjoint idle L0)", "bounded sizes; not a proof"],
                out,
                json!({}),
                vec![],
            ))
        }
        #[cfg(feature = "shim")]
        "C05" => {
            let mut g = crash_profile();
            g.max_ops = if thorough { 40 } else { 22 };
            let cases = if thorough { 8000 } else { 640 };
            let out = explore_generic(
                || crate::gen::case(&g),
                cases,
                seed,
                if thorough { 400 } else { 150 },
                |c: &crate::spec::Case| crate::crash::run(c, thorough),
                crate::crash::nontrivial,
                &crate::runner::load_known("C05"),
                crate::runner::summarize_case,
                600_000,
            );
            let images = out.hist.get("crash.images").copied().unwrap_or(0);
            Some(finish_generic(
                "C05",
                "crash",
                tier,
                seed,
                "fault_enumeration",
                "generated maintenance-heavy histories (create, writes, rotate, flush, leveled/major/move-down/pull-down compaction, clear, drop_range, ingestion, blob relocation, reopen) on standard and blob trees run under the recording FS shim; ENUMERATED: every prefix of the recorded mutation sequence (cap 600/1500 mutations per history, beyond it every 3rd), a torn version (1, half, len-1 bytes) of every multi-byte write, and for each the persistence outcomes {everything issued on disk; only fsynced file content and only directory entries whose directory was fsynced afterwards; random prefix of the unsynced entry ops per directory + random prefix of unsynced writes per file; unsynced entry ops independently kept/lost}. Oracle: Config::open on the materialised image returns Ok and the logical dump (every key's value and seqno, scan consistent with gets) equals the model's durable content before or after the interrupted op, exactly the post-op content when the cut lies at an op boundary, and a second open yields the same dump. Self-check per case: replaying the full trace reproduces the real directory byte for byte. evaluations = histories; the number of images is in coverage.images. Non-trivial = an image taken inside an op that changes the durable logical content. Distinct = hash of the case.",
                &["persistence model: file content durable up to the file's last fsync, directory entry ops durable once their directory was fsynced afterwards; the tree's own directory entry is durable; no reordering inside one file beyond prefix loss and a torn last write", "all file-system effects go through the interposed libc symbols (checked per case by the byte-for-byte trace replay)", "bounded sizes; not a proof"],
                out,
                json!({"images": images}),
                vec![],
            ))
        }
        #[cfg(feature = "shim")]
        "C16" => {
            let mut g = crash_profile();
            g.max_ops = if thorough { 25 } else { 14 };
            g.w.reopen = 1;
            let cases = if thorough { 16_000 } else { 1600 };
            let out = explore_generic(
                || crate::fault::strategy(&g),
                cases,
                seed,
                if thorough { 200 } else { 80 },
                |c: &crate::spec::Case| crate::fault::run(c, thorough),
                crate::fault::nontrivial,
                &crate::runner::load_known("C16"),
                crate::runner::summarize_case,
                900_000,
            );
            let inj = out.hist.get("fault.injected").copied().unwrap_or(0);
            Some(finish_generic(
                "C16",
                "fault",
                tier,
                seed,
                "fault_enumeration",
                "generated histories whose LAST op is the target (flush, leveled/major/move-down/pull-down compaction, drop_range, clear, ingestion incl. blob relocation) on standard and blob trees. A clean run counts the intercepted calls n of the target (creates, writes, fsyncs, renames, unlinks, mkdirs, opens, reads/preads); ENUMERATED: each k < n (cap 400/2000 per target, strided beyond) x errno in {ENOSPC, EIO} (EIO only for reads): the prefix is re-executed in a fresh directory and the target runs with call k failing once. Oracle: if the call returns Err, every point read, full scan and live snapshot equals its pre-call answer (model), nothing stays hidden (is_compacting false), a copy of the directory reopens to the durable state before or after the call, repeating the call returns Ok and reads/reopen equal the post-call model; if it returns Ok despite the fault, reads and reopen equal the post-call model; a panic is reported; the tree accepts a further write+flush. Faulted runs whose call sequence diverged before the fault fired are discarded and counted. evaluations = histories, injected faults in coverage.faults_injected. Non-trivial = a fault landed after the first output file was created and before the target's last call, and the op returned Err. Distinct = hash of the case.",
                &["faults are single, transient and reported through errno on the interposed libc call (no short writes, no silent corruption)", "the target op's call sequence is deterministic across runs (checked; divergent runs discarded and counted)", "bounded sizes; not a proof"],
                out,
                json!({"faults_injected": inj}),
                vec![],
            ))
        }
        "C10" => {
            let mut g = crash_profile();
            g.max_ops = if thorough { 15 } else { 12 };
            g.min_keys = 4;
            g.max_keys = 10;
            g.w.reopen = 1;
            g.w.clear = 0;
            g.w.drop_range = 1;
            g.w.ingest = 5;
            g.tiny = false;
            let cases = if thorough { 320 } else { 64 };
            let out = explore_generic(
                || crate::gen::case(&g),
                cases,
                seed,
                if thorough { 40 } else { 20 },
                |c: &crate::spec::Case| crate::corrupt::run(c, thorough),
                crate::corrupt::nontrivial,
                &crate::runner::load_known("C10"),
                crate::runner::summarize_case,
                3_600_000,
            );
            let faults = out.hist.get("c10.faults").copied().unwrap_or(0);
            let regions: serde_json::Map<String, serde_json::Value> = out
                .hist
                .iter()
                .filter(|(k, _)| k.starts_with("region."))
                .map(|(k, v)| (k.clone(), json!(v)))
                .collect();
            let code = finish_generic(
                "C10",
                "corruption",
                tier,
                seed,
                "fault_enumeration",
                "small generated histories (3-15 ops, generated Config incl. partitioned index/filter, lz4, blob tree, ingestion with non-zero global seqno) produce a closed directory D. ENUMERATED per directory: for every file every byte position (quick: all positions of files <= 1 KiB - always `current` and the version file - and for larger files the first/last 64 bytes, every sfa section boundary and a stratified sample of 200 positions; thorough: every position) x XOR masks {0x01, 0x80, 0xFF}, plus truncations {0, 1, half, len-1, every section boundary, 8 random}. Each fault is applied to a fresh copy of D; an isolated worker process (RLIMIT_AS 4 GiB, 20 s watchdog per fault, fresh cache and descriptor table) opens it and repeats the reference reads (table_count, persisted seqno, get of every pool key and absent probe at MAX and at the recorded visible seqno, full scans at both). Oracle: open and every read individually return exactly the reference answer or Err. A panic/abort of the worker is counted as a loud failure (tallied separately), not as a violation; a hang is counted, the enumeration continues behind it (at most 4 hangs per directory) and the run ends with exit 2 unless a violation was found. evaluations = directories; faults in coverage.faults; per-region fault counts in coverage.regions. Non-trivial = a non-empty directory on which at least one fault was detected (Err). Distinct = hash of the case.",
                &["a panic or abort on corrupted input counts as 'reported' (nothing is served); only silently different data is a violation", "single fault per copy; bit flips and truncations only", "bounded sizes; not a proof"],
                out,
                json!({"faults": faults, "regions": regions}),
                vec![],
            );
            let hangs = crate::corrupt::hangs();
            if code == 0 && !hangs.is_empty() {
                println!("WATCHDOG: C10 worker exceeded its 20 s budget on {} fault(s), first: {} (inconclusive)", hangs.len(), hangs[0]);
                return Some(2);
            }
            Some(code)
        }
        "C06" => {
            let stress_only = std::env::var("LSMV_C06_STRESS_ONLY").is_ok();
            let cases = if stress_only { 16 } else if thorough { 80_000 } else { 8000 };
            let out = explore_generic(
                || crate::sched::strategy(if thorough { 60 } else { 40 }, false),
                cases,
                seed,
                if thorough { 1500 } else { 600 },
                crate::sched::run,
                crate::sched::nontrivial,
                &crate::runner::load_known("C06"),
                |c: &crate::sched::SchedCase| serde_json::to_value(c).unwrap_or(json!(null)),
                600_000,
            );
            let mut code = 0;
            let traces = out.hist.keys().filter(|k| k.starts_with("trace.")).count();
            let mut extra = json!({"distinct_interleavings": traces});
            let mut out = out;
            out.hist.retain(|k, _| !k.starts_with("trace."));
            if (thorough || stress_only) && out.failure.is_none() {
                // free-running stress with the same exact oracle (replay cannot be guaranteed to re-fail)
                let st = explore_generic(
                    || crate::sched::strategy(60, true),
                    4000,
                    seed ^ 0x5712e55,
                    0,
                    crate::sched::run,
                    |_s: &crate::exec::Stats| true,
                    &[],
                    |c: &crate::sched::SchedCase| serde_json::to_value(c).unwrap_or(json!(null)),
                    600_000,
                );
                extra["stress_iterations"] = json!(st.evaluations);
                if let Some((case, f)) = &st.failure {
                    let p = crate::generic::write_replay_generic("C06", "schedule-stress", case, f, json!({"note": "free-running stress: replay re-runs the workload but cannot force the interleaving"}));
                    println!("FAILURE property=C06 (stress) : {}", f.what);
                    println!("VIOLATION property=C06 replay={}", p.display());
                    code = 1;
                }
            }
            let c = finish_generic(
                "C06",
                "schedule",
                tier,
                seed,
                "exploration",
                "a generated workload (writer script of 10-40/60 inserts, deletes and batches; 1-2 reader scripts of point reads and range scans in both directions; a flusher doing rotate+flush; 1-3 compactors running Leveled with l0_threshold 1-2 and tiny targets; optionally a major_compact or drop_range thread) and a generated schedule string. Real threads, one baton: exactly one thread runs at a time, threads yield at every op boundary and at the feature-gated hook points inside lsm-tree (flush: after taking the memtable snapshot and before registering tables; compaction: on entry, after hiding the input tables, before committing; reads: after pinning the super version); the controller picks the next thread among those whose outer lock (flush lock / major-compaction RwLock) is free, by the next schedule byte, so a run is a pure function of (workload, schedule). Oracle: a reader takes S = the writer's own published counter and every get/range must equal the MVCC model at S; maintenance uses T=0 or T below every snapshot a reader holds; every call returns Ok, nothing panics; afterwards every acknowledged write is readable, the C07 structural audit passes, and drop+open yields the flushed state. Non-trivial = a context switch landed inside a flush/merge window AND a reader ran while tables were hidden. Distinct = hash of the case; distinct interleavings by yield trace are reported. Thorough adds free-running stress (same oracle, real parallelism).",
                &["interleavings finer than the hook points are only reached by the thorough tier's free-running stress, whose failures can be re-run but not forced to re-fail", "ingestion and clear are not part of C06's thread set", "bounded sizes; not a proof"],
                out,
                extra,
                vec![],
            );
            Some(c.max(code))
        }
        _ => None,
    }
}

/// C20 stage 2: the directories left by crashes and by failed operations must satisfy the
/// reclamation clause after one reopen. Returns (exit code, coverage additions).
#[cfg(feature = "shim")]
pub fn c20_crash_stage(seed: u64, thorough: bool) -> (i32, serde_json::Value) {
    let mut g = crash_profile();
    g.max_ops = if thorough { 30 } else { 22 };
    let out = explore_generic(
        || crate::gen::case(&g),
        if thorough { 1200 } else { 160 },
        seed ^ 0xC20,
        200,
        |c: &crate::spec::Case| {
            crate::crash::set_reclaim_check(true);
            let r = crate::crash::run(c, false);
            crate::crash::set_reclaim_check(false);
            r
        },
        crate::crash::nontrivial,
        &crate::runner::load_known("C20"),
        crate::runner::summarize_case,
        600_000,
    );
    let images = out.hist.get("crash.images").copied().unwrap_or(0);
    let mut code = 0;
    if let Some((case, f)) = &out.failure {
        if f.what.contains("[C20]") {
            let p = crate::generic::write_replay_generic("C20", "crash-reclaim", case, f, json!({"stage": "crash images"}));
            println!("FAILURE property=C20 : {}", f.what);
            println!("VIOLATION property=C20 replay={}", p.display());
            code = 1;
        } else {
            println!("NOTE: the C20 crash-image stage hit a failure that belongs to C05, not C20: {}", f.what);
        }
    }
    let mut cov = json!({"crash_image_stage": {"histories": out.evaluations, "images_reopened_and_listed": images}});
    if code == 0 {
        let mut g = crash_profile();
        g.max_ops = if thorough { 25 } else { 14 };
        g.w.reopen = 1;
        let out = explore_generic(
            || crate::fault::strategy(&g),
            if thorough { 2400 } else { 320 },
            seed ^ 0xC2016,
            80,
            |c: &crate::spec::Case| {
                crate::crash::set_reclaim_check(true);
                let r = crate::fault::run(c, false);
                crate::crash::set_reclaim_check(false);
                r
            },
            crate::fault::nontrivial,
            &crate::runner::load_known("C20"),
            crate::runner::summarize_case,
            900_000,
        );
        let inj = out.hist.get("fault.injected").copied().unwrap_or(0);
        if let Some((case, f)) = &out.failure {
            if f.what.contains("[C20]") {
                let p = crate::generic::write_replay_generic("C20", "fault-reclaim", case, f, json!({"stage": "failed operations"}));
                println!("FAILURE property=C20 : {}", f.what);
                println!("VIOLATION property=C20 replay={}", p.display());
                code = 1;
            } else {
                println!("NOTE: the C20 failed-operation stage hit a failure that belongs to C16, not C20: {}", f.what);
            }
        }
        cov["failed_operation_stage"] = json!({"histories": out.evaluations, "faults_injected_then_reopened_and_listed": inj});
    }
    (code, cov)
}

fn crash_profile() -> crate::gen::GenProfile {
    use crate::gen::{BlobMode, GenProfile, Weights};
    let mut w = Weights::base();
    w.insert = 22;
    w.remove = 6;
    w.batch = 3;
    w.rotate = 3;
    w.flush = 3;
    w.flush_active = 14;
    w.leveled = 8;
    w.major = 4;
    w.movedown = 3;
    w.pulldown = 4;
    w.reopen = 3;
    w.ingest = 4;
    w.drop_range = 3;
    w.clear = 2;
    w.remove_weak = 1;
    GenProfile {
        max_ops: 14,
        min_keys: 4,
        max_keys: 14,
        blob: BlobMode::Either,
        w,
        n_cfgs: 1,
        weak_keys_max: 2,
        multi_gen: false,
        verdicts: false,
        tiny: true,
        big_values: false,
        big_pool_pct: 0,
        dense_pct: 0,
    }
}

pub fn replay(id: &str, path: &Path) -> Option<i32> {
    let txt = std::fs::read_to_string(path).ok()?;
    let v: serde_json::Value = serde_json::from_str(&txt).ok()?;
    let report = |r: Result<crate::exec::Stats, Failure>| -> i32 {
        match r {
            Ok(_) => {
                println!("replay passed (property held on this case)");
                0
            }
            Err(f) => {
                println!("FAILURE property={id} op_index={} : {}", f.op_index, f.what);
                println!("VIOLATION property={id} replay={}", path.display());
                1
            }
        }
    };
    match id {
        "C12" => {
            let case: crate::tablecheck::TableCase = serde_json::from_value(v["case"].clone()).ok()?;
            Some(report(crate::tablecheck::run(&case)))
        }
        "C19" => {
            let case: crate::fifo::FifoCase = serde_json::from_value(v["case"].clone()).ok()?;
            Some(report(crate::fifo::run(&case)))
        }
        #[cfg(feature = "shim")]
        "C05" => {
            let case: crate::spec::Case = serde_json::from_value(v["case"].clone()).ok()?;
            Some(report(crate::crash::run(&case, true)))
        }
        #[cfg(feature = "shim")]
        "C20" if v["kind"] == "fault-reclaim" => {
            let case: crate::spec::Case = serde_json::from_value(v["case"].clone()).ok()?;
            crate::crash::set_reclaim_check(true);
            let r = crate::fault::run(&case, false);
            crate::crash::set_reclaim_check(false);
            Some(report(r))
        }
        #[cfg(feature = "shim")]
        "C20" if v["kind"] == "crash-reclaim" => {
            let case: crate::spec::Case = serde_json::from_value(v["case"].clone()).ok()?;
            crate::crash::set_reclaim_check(true);
            let r = crate::crash::run(&case, false);
            crate::crash::set_reclaim_check(false);
            Some(report(r))
        }
        #[cfg(feature = "shim")]
        "C16" => {
            let case: crate::spec::Case = serde_json::from_value(v["case"].clone()).ok()?;
            Some(report(crate::fault::run(&case, true)))
        }
        "C10" => {
            let case: crate::spec::Case = serde_json::from_value(v["case"].clone()).ok()?;
            Some(report(crate::corrupt::run(&case, true)))
        }
        "C06" => {
            let case: crate::sched::SchedCase = serde_json::from_value(v["case"].clone()).ok()?;
            Some(report(crate::sched::run(&case)))
        }
        _ => None,
    }
}
