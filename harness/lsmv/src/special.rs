//! Checks that do not use the history `Case` type.

use crate::exec::Failure;
use crate::generic::{explore_generic, finish_generic};
use serde_json::json;
use std::path::Path;

const ASSUME_TABLE: [&str; 2] = [
    "streams are strictly ordered (key asc, seqno desc), keys 1..65535 bytes, seqnos < 2^63 (what every caller of table::Writer guarantees)",
    "bounded sizes; not a proof",
];

pub fn check(id: &str, tier: &str, seed: u64) -> Option<i32> {
    let thorough = tier == "thorough";
    match id {
        "C12" => {
            let max_entries = if thorough { 5000 } else { 600 };
            let cases = if thorough { 60_000 } else { 4000 };
            let out = explore_generic(
                || crate::tablecheck::strategy(max_entries),
                cases,
                seed,
                if thorough { 3000 } else { 1200 },
                crate::tablecheck::run,
                crate::tablecheck::nontrivial,
                &[],
                |c: &crate::tablecheck::TableCase| {
                    let mut c = c.clone();
                    c.entries.truncate(12);
                    for e in c.entries.iter_mut() {
                        e.key.truncate(32);
                    }
                    serde_json::to_value(&c).unwrap_or(json!(null))
                },
                120_000,
            );
            Some(finish_generic(
                "C12",
                "table",
                tier,
                seed,
                "exploration",
                "a strictly ordered multi-version stream (1-8 versions per key, Value/Tombstone/WeakTombstone/Indirection, shared prefixes up to 200 bytes, keys up to 6 KiB, values up to 70 KiB, dense runs of >254 tiny entries) is written with generated writer settings (block size 1-65536, restart interval 1-255, hash ratio 0-8, full or partitioned index/filter with partition size 1-4096, bloom policy incl. none, lz4) and recovered with generated reader settings (pinning, cache 0/16 MiB, descriptor table none/1/10, global seqno 0 or G). Oracle = the stream itself: scan(), iter(), iter().rev(), range(bounds) consumed from both ends, get(k, s) for every key and every s in {0, sigma, sigma+1 (+G), MAX}, absent neighbours, metadata. Non-trivial = >=3 data blocks, a multi-version key, and an entry larger than the block size or >=2 index partitions. Distinct = hash of the case.",
                &ASSUME_TABLE,
                out,
                json!({}),
                vec![],
            ))
        }
        "C19" => {
            let cases = if thorough { 40_000 } else { 2400 };
            let out = explore_generic(
                || crate::fifo::strategy(if thorough { 60 } else { 30 }),
                cases,
                seed,
                if thorough { 3000 } else { 1200 },
                crate::fifo::run,
                crate::fifo::nontrivial,
                &[],
                |c: &crate::fifo::FifoCase| serde_json::to_value(c).unwrap_or(json!(null)),
                120_000,
            );
            Some(finish_generic(
                "C19",
                "fifo",
                tier,
                seed,
                "exploration",
                "append-only histories with strictly increasing keys on standard and blob trees: flushes of 1-5 new keys with the harness-owned virtual clock (clock_gettime interposition) advanced 0-40 s between them, then compact(Fifo(limit, ttl)) with limit drawn around the current on-disk size (0, half, exactly, +1, minus the smallest table, MAX) and ttl in {None, 0, 1 s, oldest age, half of it, beyond it, 60 s}; repeated; reopen. Oracle: no table is created; no removed table is newer than a retained one unless it had certainly exceeded the TTL (clock read before the call); nothing is removed when nothing can have exceeded the TTL (clock read after the call) and the actual on-disk bytes (an upper bound of the strategy's own measure) are within the limit; every key of every retained table reads its value after every step and after reopen; len() equals the number of retained keys. Non-trivial = a FIFO call removed some tables and retained others. Distinct = hash of the case.",
                &["FIFO is used as documented: new keys only, monotonic order, no other compaction (choose() asserts a disjoint idle L0)", "bounded sizes; not a proof"],
                out,
                json!({}),
                vec![],
            ))
        }
        _ => None,
    }
}

pub fn replay(id: &str, path: &Path) -> Option<i32> {
    let txt = std::fs::read_to_string(path).ok()?;
    let v: serde_json::Value = serde_json::from_str(&txt).ok()?;
    let report = |r: Result<crate::exec::Stats, Failure>| -> i32 {
        match r {
            Ok(_) => {
                println!("replay passed (property held on this case)");
                0
            }
            Err(f) => {
                println!("FAILURE property={id} op_index={} : {}", f.op_index, f.what);
                println!("VIOLATION property={id} replay={}", path.display());
                1
            }
        }
    };
    match id {
        "C12" => {
            let case: crate::tablecheck::TableCase = serde_json::from_value(v["case"].clone()).ok()?;
            Some(report(crate::tablecheck::run(&case)))
        }
        "C19" => {
            let case: crate::fifo::FifoCase = serde_json::from_value(v["case"].clone()).ok()?;
            Some(report(crate::fifo::run(&case)))
        }
        _ => None,
    }
}
