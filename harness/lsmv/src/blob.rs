//! C08 pointer audit and C09 garbage accounting, with a self-written blob file parser.

use crate::exec::{Exec, R};
use crate::model::Kind;
use crate::util::hex;
use lsm_tree::{coding::Encode, AbstractTree, ValueType};
use std::collections::BTreeMap;
use std::path::Path;

#[derive(Debug, Clone)]
pub struct Frame {
    pub offset: u64,
    pub key: Vec<u8>,
    pub seqno: u64,
    pub real_len: u32,
    pub disk_len: u32,
    pub checksum_ok: bool,
    pub payload: Vec<u8>,
}

/// (offset, blob_file_id, on_disk_size, size)
pub fn decode_pointer(b: &[u8]) -> Option<(u64, u64, u32, u32)> {
    fn varint(b: &[u8], pos: &mut usize) -> Option<u64> {
        let mut out = 0u64;
        let mut shift = 0;
        loop {
            let byte = *b.get(*pos)?;
            *pos += 1;
            out |= ((byte & 0x7F) as u64) << shift;
            if byte & 0x80 == 0 {
                return Some(out);
            }
            shift += 7;
            if shift > 63 {
                return None;
            }
        }
    }
    let mut p = 0;
    let off = varint(b, &mut p)?;
    let id = varint(b, &mut p)?;
    let disk = varint(b, &mut p)?;
    let size = varint(b, &mut p)?;
    if p != b.len() {
        return None;
    }
    Some((off, id, u32::try_from(disk).ok()?, u32::try_from(size).ok()?))
}

pub fn parse_blob_file(path: &Path) -> Result<Vec<Frame>, String> {
    let bytes = std::fs::read(path).map_err(|e| format!("read {path:?}: {e}"))?;
    let reader = sfa::Reader::new(path).map_err(|e| format!("sfa {path:?}: {e:?}"))?;
    let sec = reader
        .toc()
        .section(b"data")
        .ok_or_else(|| "no data section".to_string())?;
    let start = sec.pos() as usize;
    let end = start + sec.len() as usize;
    let data = bytes.get(start..end).ok_or("data section out of bounds")?;
    let mut frames = vec![];
    let mut p = 0usize;
    while p < data.len() {
        let off = p as u64;
        let hdr = data.get(p..p + 38).ok_or("truncated frame header")?;
        if &hdr[0..4] != b"BLOB" {
            return Err(format!("bad frame magic at {p}"));
        }
        let checksum = u128::from_le_bytes(hdr[4..20].try_into().unwrap());
        let seqno = u64::from_le_bytes(hdr[20..28].try_into().unwrap());
        let klen = u16::from_le_bytes(hdr[28..30].try_into().unwrap()) as usize;
        let real_len = u32::from_le_bytes(hdr[30..34].try_into().unwrap());
        let disk_len = u32::from_le_bytes(hdr[34..38].try_into().unwrap());
        p += 38;
        let key = data.get(p..p + klen).ok_or("truncated key")?.to_vec();
        p += klen;
        let payload = data
            .get(p..p + disk_len as usize)
            .ok_or("truncated payload")?
            .to_vec();
        p += disk_len as usize;
        let mut h = xxhash_rust::xxh3::Xxh3::default();
        h.update(&key);
        h.update(&payload);
        frames.push(Frame {
            offset: off,
            key,
            seqno,
            real_len,
            disk_len,
            checksum_ok: h.digest128() == checksum,
            payload,
        });
    }
    Ok(frames)
}

pub fn frag_map(m: &lsm_tree::blob_tree::FragmentationMap) -> BTreeMap<u64, (u64, u64, u64)> {
    let bytes = m.encode_into_vec();
    let mut out = BTreeMap::new();
    let n = u32::from_le_bytes(bytes[0..4].try_into().unwrap()) as usize;
    let mut p = 4;
    for _ in 0..n {
        let id = u64::from_le_bytes(bytes[p..p + 8].try_into().unwrap());
        let len = u32::from_le_bytes(bytes[p + 8..p + 12].try_into().unwrap()) as u64;
        let b = u64::from_le_bytes(bytes[p + 12..p + 20].try_into().unwrap());
        let d = u64::from_le_bytes(bytes[p + 20..p + 28].try_into().unwrap());
        out.insert(id, (len, b, d));
        p += 28;
    }
    out
}

pub fn audit(ex: &mut Exec) -> R<()> {
    if !ex.is_blob() {
        return Ok(());
    }
    let t = ex.tree().clone();
    let v = t.current_version();
    let lz4 = ex.cfgs[ex.cfg_idx].blob.as_ref().map_or(false, |b| b.lz4);
    // parse every blob file of the version
    let mut files: BTreeMap<u64, BTreeMap<u64, Frame>> = BTreeMap::new();
    let mut file_ids = vec![];
    for bf in v.blob_files.iter() {
        if !bf.path().exists() {
            return Err(format!("blob file {} named by the version does not exist", bf.id()));
        }
        let frames = parse_blob_file(bf.path()).map_err(|e| format!("blob file {} does not parse: {e}", bf.id()))?;
        if frames.len() as u64 != bf.len() {
            return Err(format!(
                "blob file {}: metadata says {} items, file holds {}",
                bf.id(),
                bf.len(),
                frames.len()
            ));
        }
        file_ids.push(bf.id());
        files.insert(bf.id(), frames.into_iter().map(|f| (f.offset, f)).collect());
    }
    // scan all pointers of all tables (all versions, not only visible ones)
    let mut refs: BTreeMap<u64, (u64, u64, u64)> = BTreeMap::new();
    let mut ref_tables: BTreeMap<u64, std::collections::BTreeSet<u64>> = BTreeMap::new();
    let mut nptr = 0u64;
    for table in v.iter_tables() {
        for it in table.iter() {
            let it = it.map_err(|e| format!("Table::iter Err: {e:?}"))?;
            if it.key.value_type != ValueType::Indirection {
                continue;
            }
            nptr += 1;
            let key = it.key.user_key.to_vec();
            let (off, fid, disk, size) = decode_pointer(&it.value).ok_or_else(|| {
                format!("pointer of key {} seqno {} does not decode", hex(&key), it.key.seqno)
            })?;
            let Some(frames) = files.get(&fid) else {
                return Err(format!(
                    "dangling pointer: key {} seqno {} in table {} points into blob file {fid} which is not in the version (files {file_ids:?})",
                    hex(&key),
                    it.key.seqno,
                    table.id()
                ));
            };
            let Some(fr) = frames.get(&off) else {
                return Err(format!(
                    "pointer of key {} seqno {} targets offset {off} of blob file {fid} where no frame starts",
                    hex(&key),
                    it.key.seqno
                ));
            };
            if fr.key != key {
                return Err(format!(
                    "pointer of key {} resolves to a frame of key {}",
                    hex(&key),
                    hex(&fr.key)
                ));
            }
            if fr.real_len != size || fr.disk_len != disk {
                return Err(format!(
                    "pointer of key {} records sizes ({size},{disk}) but the frame has ({},{})",
                    hex(&key),
                    fr.real_len,
                    fr.disk_len
                ));
            }
            if !fr.checksum_ok {
                return Err(format!("frame of key {} fails its checksum", hex(&key)));
            }
            if ex.audits.blob_ptr {
                // the bytes must be the ones written for that key and version (if the model still knows it)
                if let Some(ws) = ex.model.writes.get(&key) {
                    if let Some(w) = ws.iter().find(|w| w.seqno == it.key.seqno) {
                        let expect = match ex.model.effective_kind(&key, w, u64::MAX) {
                            Kind::Val(v) => Some(v),
                            _ => None,
                        };
                        // an older snapshot may still need the pre-rewrite bytes: accept either
                        let expect_old = match &w.kind {
                            Kind::Val(v) => Some(v.clone()),
                            _ => None,
                        };
                        let plain = if lz4 && fr.disk_len != fr.real_len || lz4 {
                            lz4_flex::decompress(&fr.payload, fr.real_len as usize)
                                .unwrap_or_else(|_| fr.payload.clone())
                        } else {
                            fr.payload.clone()
                        };
                        if let Some(e) = expect {
                            if e != plain && e != fr.payload && expect_old.as_ref() != Some(&plain) {
                                return Err(format!(
                                    "pointer of key {} seqno {} resolves to bytes that were not written for that version",
                                    hex(&key),
                                    w.seqno
                                ));
                            }
                        }
                    }
                }
            }
            ref_tables.entry(fid).or_default().insert(table.id());
            let e = refs.entry(fid).or_insert((0, 0, 0));
            e.0 += 1;
            e.1 += size as u64;
            e.2 += disk as u64;
        }
    }
    ex.stats.add("blob.pointers_checked", nptr);
    // a blob file referenced from several tables: a partial compaction must not rewrite it away from under
    // the tables it does not touch
    let shared: Vec<u64> = ref_tables.iter().filter(|(_, t)| t.len() >= 2).map(|(f, _)| *f).collect();
    if !shared.is_empty() {
        ex.stats.bump("blob.file_shared_by_tables");
        if ex.merge_happened {
            ex.stats.bump("blob.shared_file_after_merge");
        }
    }
    if ex.audits.gc_stats {
        let recorded = frag_map(v.gc_stats());
        let mut partial = false;
        // "a blob file leaves the version exactly when nothing points into it any more": both merge
        // flavours drop every file that is dead by the statistics of the version they start from
        if ex.merge_happened {
            for id in &ex.dead_blob_files {
                if file_ids.contains(id) {
                    return Err(format!(
                        "blob file {id} had no reference left before this merging compaction (and its recorded garbage said so) but it is still part of the version"
                    ));
                }
            }
            if !ex.dead_blob_files.is_empty() {
                ex.stats.bump("blob.dead_file_dropped_by_merge");
            }
        }
        let mut dead_now = vec![];
        for (fid, frames) in &files {
            let tot = (
                frames.len() as u64,
                frames.values().map(|f| f.real_len as u64).sum::<u64>(),
                frames.values().map(|f| f.disk_len as u64).sum::<u64>(),
            );
            let r = refs.get(fid).copied().unwrap_or((0, 0, 0));
            if r.0 > tot.0 {
                return Err(format!("blob file {fid}: more references ({}) than frames ({})", r.0, tot.0));
            }
            let garbage = (tot.0 - r.0, tot.1 - r.1, tot.2 - r.2);
            let rec = recorded.get(fid).copied().unwrap_or((0, 0, 0));
            if rec != garbage {
                return Err(format!(
                    "blob file {fid}: recorded garbage (count,bytes,on_disk)={rec:?} but unreferenced blobs amount to {garbage:?} (frames {tot:?}, referenced {r:?})"
                ));
            }
            if garbage.0 > 0 && r.0 > 0 {
                partial = true;
            }
            if r.0 == 0 {
                ex.stats.bump("blob.fully_dead_file_in_version");
                dead_now.push(*fid);
            }
        }
        let sum: u64 = recorded.values().map(|e| e.2).sum();
        if t.stale_blob_bytes() != sum {
            return Err(format!(
                "stale_blob_bytes() = {} but recorded on-disk garbage sums to {sum}",
                t.stale_blob_bytes()
            ));
        }
        if partial {
            ex.stats.bump("blob.partial_garbage");
        }
        ex.dead_blob_files = dead_now;
    }
    // relocation / drop classification
    let prev: Vec<u64> = ex
        .stats
        .ctr
        .iter()
        .filter(|(k, _)| k.starts_with("blobfile."))
        .map(|(k, _)| k[9..].parse::<u64>().unwrap_or(0))
        .collect();
    for id in &prev {
        if !file_ids.contains(id) {
            ex.stats.ctr.remove(&format!("blobfile.{id}"));
            ex.stats.bump("blob.file_left_version");
        }
    }
    for id in &file_ids {
        ex.stats.ctr.entry(format!("blobfile.{id}")).or_insert(1);
    }
    ex.stats.bump("audit.blob");
    Ok(())
}
