//! C10: byte flips and truncations of every persisted file; reads must equal the reference or Err.

use crate::exec::{Audits, Exec, Failure, Stats};
use crate::spec::{Case, CfgSpec, Op};
use crate::util::hex;
use lsm_tree::{AbstractTree, Guard, SeqNo, SequenceNumberCounter};
use serde::{Deserialize, Serialize};
use std::io::{BufRead, BufReader, Write};
use std::path::{Path, PathBuf};

#[derive(Serialize, Deserialize, Clone, Debug, PartialEq)]
pub enum Fault {
    Flip { file: String, pos: u64, mask: u8 },
    Trunc { file: String, len: u64 },
}

#[derive(Serialize, Deserialize, Clone, Debug, PartialEq)]
pub struct Obs {
    pub table_count: usize,
    pub persisted: Option<u64>,
    /// per pool key then per probe: value at MAX, value at visible
    pub points_max: Vec<Option<Vec<u8>>>,
    pub points_vis: Vec<Option<Vec<u8>>>,
    pub scan_max: Vec<(Vec<u8>, Vec<u8>)>,
    pub scan_vis: Vec<(Vec<u8>, Vec<u8>)>,
}

#[derive(Serialize, Deserialize, Clone, Debug)]
pub struct Job {
    pub src: PathBuf,
    pub scratch: PathBuf,
    pub cfg: CfgSpec,
    pub keys: Vec<Vec<u8>>,
    pub visible: u64,
    pub reference: Obs,
    pub faults: Vec<Fault>,
    pub start: usize,
}

fn open_tree(cfg: &CfgSpec, dir: &Path) -> Result<lsm_tree::AnyTree, String> {
    let shared = crate::cfg::Shared::from_spec(cfg);
    crate::cfg::build(
        cfg,
        dir,
        SequenceNumberCounter::default(),
        SequenceNumberCounter::default(),
        &shared,
        None,
    )
    .open()
    .map_err(|e| format!("{e:?}"))
}

/// Compare each observation individually with the reference: Ok(()) if equal or Err-reported.
/// Returns Err(description) when different data was served.
fn observe_and_compare(job: &Job, dir: &Path, want_obs: bool) -> Result<(Option<Obs>, String), String> {
    let t = match open_tree(&job.cfg, dir) {
        Ok(t) => t,
        Err(_) => return Ok((None, "err-open".into())),
    };
    let r = &job.reference;
    let mut errs = 0u32;
    let mut obs = Obs {
        table_count: t.table_count(),
        persisted: t.get_highest_persisted_seqno(),
        points_max: vec![],
        points_vis: vec![],
        scan_max: vec![],
        scan_vis: vec![],
    };
    if !want_obs {
        if obs.table_count != r.table_count {
            return Err(format!("table_count {} instead of {}", obs.table_count, r.table_count));
        }
        if obs.persisted != r.persisted {
            return Err(format!(
                "get_highest_persisted_seqno {:?} instead of {:?}",
                obs.persisted, r.persisted
            ));
        }
    }
    for (snap, which) in [(SeqNo::MAX, 0), (job.visible, 1)] {
        for (i, k) in job.keys.iter().enumerate() {
            match t.get(k, snap) {
                Ok(v) => {
                    let v = v.map(|x| x.to_vec());
                    if want_obs {
                        if which == 0 {
                            obs.points_max.push(v);
                        } else {
                            obs.points_vis.push(v);
                        }
                    } else {
                        let exp = if which == 0 { &r.points_max[i] } else { &r.points_vis[i] };
                        if &v != exp {
                            return Err(format!(
                                "get({}) at {} returned {} instead of {}",
                                hex(k),
                                if which == 0 { "MAX".to_string() } else { snap.to_string() },
                                crate::util::show_val(&v),
                                crate::util::show_val(exp)
                            ));
                        }
                    }
                }
                Err(_) => errs += 1,
            }
        }
        let mut scan = vec![];
        let mut scan_err = false;
        for g in t.iter(snap, None) {
            match g.into_inner() {
                Ok((k, v)) => scan.push((k.to_vec(), v.to_vec())),
                Err(_) => {
                    scan_err = true;
                    break;
                }
            }
        }
        if scan_err {
            errs += 1;
        } else if want_obs {
            if which == 0 {
                obs.scan_max = scan;
            } else {
                obs.scan_vis = scan;
            }
        } else {
            let exp = if which == 0 { &r.scan_max } else { &r.scan_vis };
            if &scan != exp {
                let got_keys: Vec<String> = scan.iter().map(|(k, _)| hex(k)).collect();
                let exp_keys: Vec<String> = exp.iter().map(|(k, _)| hex(k)).collect();
                return Err(format!(
                    "scan at {} completed without error but yielded {} items {:?} instead of {} items {:?}",
                    if which == 0 { "MAX".to_string() } else { snap.to_string() },
                    scan.len(),
                    &got_keys[..got_keys.len().min(6)],
                    exp.len(),
                    &exp_keys[..exp_keys.len().min(6)]
                ));
            }
        }
    }
    drop(t);
    Ok((
        if want_obs { Some(obs) } else { None },
        if errs > 0 { "err-read".into() } else { "same".into() },
    ))
}

pub fn apply_fault(dir: &Path, f: &Fault) -> std::io::Result<()> {
    match f {
        Fault::Flip { file, pos, mask } => {
            let p = dir.join(file);
            let mut b = std::fs::read(&p)?;
            if let Some(x) = b.get_mut(*pos as usize) {
                *x ^= mask;
            }
            std::fs::write(&p, b)
        }
        Fault::Trunc { file, len } => {
            let p = dir.join(file);
            let f = std::fs::OpenOptions::new().write(true).open(p)?;
            f.set_len(*len)
        }
    }
}

/// Worker process entry: processes faults from job.start, one line per fault on stdout.
pub fn worker_main(job_path: &Path) -> i32 {
    unsafe {
        let lim = libc::rlimit {
            rlim_cur: 4 << 30,
            rlim_max: 4 << 30,
        };
        libc::setrlimit(libc::RLIMIT_AS, &lim);
        // never outlive the parent (a hung worker would otherwise spin forever), and a CPU backstop
        libc::prctl(libc::PR_SET_PDEATHSIG, libc::SIGKILL);
        let cpu = libc::rlimit {
            rlim_cur: 1800,
            rlim_max: 1800,
        };
        libc::setrlimit(libc::RLIMIT_CPU, &cpu);
    }
    let Ok(txt) = std::fs::read_to_string(job_path) else { return 2 };
    let Ok(job) = serde_json::from_str::<Job>(&txt) else { return 2 };
    let out = std::io::stdout();
    for (i, f) in job.faults.iter().enumerate().skip(job.start) {
        {
            let mut o = out.lock();
            let _ = writeln!(o, "B {i}");
            let _ = o.flush();
        }
        let d = job.scratch.join("w");
        crate::util::rm_rf(&d);
        if crate::util::copy_dir(&job.src, &d).is_err() || apply_fault(&d, f).is_err() {
            let mut o = out.lock();
            let _ = writeln!(o, "R {i} harness-copy-failed");
            continue;
        }
        let r = std::panic::catch_unwind(std::panic::AssertUnwindSafe(|| observe_and_compare(&job, &d, false)));
        let verdict = match r {
            Ok(Ok((_, v))) => v,
            Ok(Err(diff)) => format!("DIFFERENT {diff}"),
            Err(_) => {
                let _ = crate::runner::take_panic();
                "panic".to_string()
            }
        };
        let mut o = out.lock();
        let _ = writeln!(o, "R {i} {verdict}");
        let _ = o.flush();
    }
    crate::util::rm_rf(&job.scratch.join("w"));
    0
}

struct Det(u64);
impl Det {
    fn below(&mut self, n: u64) -> u64 {
        self.0 = self.0.wrapping_mul(6364136223846793005).wrapping_add(1442695040888963407);
        let mut x = self.0;
        x ^= x >> 33;
        x = x.wrapping_mul(0xff51afd7ed558ccd);
        x ^= x >> 33;
        if n == 0 {
            0
        } else {
            x % n
        }
    }
}

/// (file kind, region name) of a byte position, for coverage accounting
fn region_of(file: &str, pos: u64, sections: &[(String, u64, u64)], len: u64) -> String {
    let kind = if file == "current" {
        "current"
    } else if file.starts_with('v') {
        "version"
    } else if file.starts_with("tables/") {
        "table"
    } else if file.starts_with("blobs/") {
        "blob"
    } else {
        "other"
    };
    if kind == "current" {
        return "current".into();
    }
    for (name, p, l) in sections {
        if pos >= *p && pos < p + l {
            return format!("{kind}.{name}");
        }
    }
    if pos + 42 >= len {
        format!("{kind}.trailer")
    } else {
        format!("{kind}.toc")
    }
}

fn sections_of(path: &Path) -> Vec<(String, u64, u64)> {
    match sfa::Reader::new(path) {
        Ok(r) => r
            .toc()
            .iter()
            .map(|e| (String::from_utf8_lossy(e.name()).to_string(), e.pos(), e.len()))
            .collect(),
        Err(_) => vec![],
    }
}

pub fn enumerate_faults(dir: &Path, thorough: bool, seed: u64, stats: &mut Stats) -> Vec<Fault> {
    let mut out = vec![];
    let mut det = Det(seed);
    for rel in crate::util::list_files(dir) {
        let file = rel.to_string_lossy().to_string();
        let p = dir.join(&rel);
        let len = std::fs::metadata(&p).map(|m| m.len()).unwrap_or(0);
        if len == 0 {
            continue;
        }
        let secs = if file == "current" { vec![] } else { sections_of(&p) };
        let mut positions: Vec<u64> = vec![];
        let full = thorough || len <= 1024;
        if full {
            positions.extend(0..len);
        } else {
            positions.extend(0..64.min(len));
            positions.extend(len.saturating_sub(64)..len);
            for (_, sp, sl) in &secs {
                for d in 0..4 {
                    positions.push(sp + d);
                    positions.push((sp + sl).saturating_sub(1 + d));
                }
            }
            // stratified sample
            let n = 200u64;
            for i in 0..n {
                let lo = len * i / n;
                let hi = (len * (i + 1) / n).max(lo + 1);
                positions.push(lo + det.below(hi - lo));
            }
            positions.retain(|x| *x < len);
            positions.sort_unstable();
            positions.dedup();
        }
        for pos in positions {
            let masks: &[u8] = if full && len > 4096 && !thorough { &[0x01] } else { &[0x01, 0x80, 0xFF] };
            for &mask in masks {
                out.push(Fault::Flip {
                    file: file.clone(),
                    pos,
                    mask,
                });
                stats.bump(&format!("region.{}", region_of(&file, pos, &secs, len)));
            }
        }
        let mut truncs = vec![0, 1, len / 2, len - 1];
        for (_, sp, sl) in &secs {
            truncs.push(*sp);
            truncs.push(sp + sl);
        }
        for _ in 0..8 {
            truncs.push(det.below(len));
        }
        truncs.retain(|x| *x < len);
        truncs.sort_unstable();
        truncs.dedup();
        for l in truncs {
            out.push(Fault::Trunc {
                file: file.clone(),
                len: l,
            });
            stats.bump("region.truncation");
        }
    }
    out
}

pub fn run(case: &Case, thorough: bool) -> Result<Stats, Failure> {
    let root = crate::runner::fresh_dir();
    let r = std::panic::catch_unwind(std::panic::AssertUnwindSafe(|| run_inner(case, &root, thorough)));
    crate::util::rm_rf(&root);
    match r {
        Ok(r) => r,
        Err(_) => Err(Failure {
            op_index: usize::MAX,
            what: format!("panic (harness level): {}", crate::runner::take_panic().unwrap_or_default()),
        }),
    }
}

fn run_inner(case: &Case, root: &Path, thorough: bool) -> Result<Stats, Failure> {
    let mut stats = Stats::default();
    if case.keys.is_empty() {
        return Ok(stats);
    }
    let fail = |what: String| Failure { op_index: 0, what };
    // build the directory
    let d = root.join("src");
    let mut ex = Exec::new(&d, case, Audits::default(), None);
    ex.open().map_err(&fail)?;
    for op in &case.ops {
        ex.apply(op).map_err(|w| fail(format!("building the directory: {op:?}: {w}")))?;
    }
    ex.apply(&Op::FlushActive { wm: 0 }).map_err(&fail)?;
    let visible = ex.visible.get();
    let cfg = ex.cfgs[ex.cfg_idx].clone();
    let mut keys = ex.keys.clone();
    keys.extend(ex.probes.iter().take(8).cloned());
    ex.tree = None;
    drop(ex);
    let mut job = Job {
        src: d.clone(),
        scratch: root.join("scratch"),
        cfg,
        keys,
        visible,
        reference: Obs {
            table_count: 0,
            persisted: None,
            points_max: vec![],
            points_vis: vec![],
            scan_max: vec![],
            scan_vis: vec![],
        },
        faults: vec![],
        start: 0,
    };
    std::fs::create_dir_all(&job.scratch).map_err(|e| fail(format!("HARNESS: {e}")))?;
    // reference from a clean copy
    let clean = root.join("clean");
    crate::util::copy_dir(&d, &clean).map_err(|e| fail(format!("HARNESS: copy: {e}")))?;
    let (obs, _) = observe_and_compare(&job, &clean, true).map_err(|w| fail(format!("HARNESS: reference: {w}")))?;
    job.reference = obs.ok_or_else(|| fail("HARNESS: clean copy does not open".into()))?;
    // the reference must be reproducible (a second clean copy compares equal)
    let clean2 = root.join("clean2");
    crate::util::copy_dir(&d, &clean2).map_err(|e| fail(format!("HARNESS: copy: {e}")))?;
    match observe_and_compare(&job, &clean2, false) {
        Ok((_, v)) if v == "same" => {}
        other => return Err(fail(format!("HARNESS: a clean copy does not reproduce the reference: {other:?}"))),
    }
    if job.reference.scan_max.is_empty() {
        stats.bump("c10.empty_directory");
    }
    job.faults = enumerate_faults(&d, thorough, crate::runner::case_hash(case), &mut stats);
    let nfaults = job.faults.len();
    stats.add("c10.faults", nfaults as u64);
    let job_path = root.join("job.json");
    let exe = std::env::current_exe().map_err(|e| fail(format!("HARNESS: current_exe: {e}")))?;
    let mut start = 0usize;
    let mut consumed_by_reads = 0u64;
    let mut hangs_here = 0u32;
    // a fault that timed out once is retried alone with a long budget before it counts as a hang
    // (on an overloaded machine a healthy worker can be starved for longer than the short budget)
    let mut retry_idx: Option<usize> = None;
    while start < nfaults {
        if hangs_here >= 4 {
            // every hang costs the full time-out: give up on this directory, the run ends with exit 2
            stats.add("c10.faults_skipped_after_hangs", (nfaults - start) as u64);
            break;
        }
        job.start = start;
        std::fs::write(&job_path, serde_json::to_string(&job).unwrap_or_default()).map_err(|e| fail(format!("HARNESS: {e}")))?;
        let mut child = std::process::Command::new(&exe)
            .arg("c10worker")
            .arg(&job_path)
            .stdout(std::process::Stdio::piped())
            .stderr(std::process::Stdio::null())
            .spawn()
            .map_err(|e| fail(format!("HARNESS: spawn worker: {e}")))?;
        let stdout = child.stdout.take().ok_or_else(|| fail("HARNESS: no stdout".into()))?;
        // reader thread with a per-fault timeout enforced by the parent
        let (tx, rx) = std::sync::mpsc::channel::<String>();
        std::thread::spawn(move || {
            for line in BufReader::new(stdout).lines().map_while(Result::ok) {
                if tx.send(line).is_err() {
                    break;
                }
            }
        });
        let mut in_flight: Option<usize> = None;
        let mut got_any = false;
        loop {
            // a fresh worker first parses the whole job (tens of MB in the thorough tier): generous start-up
            let budget = if !got_any {
                WORKER_STARTUP_TIMEOUT_S
            } else if retry_idx.is_some() && retry_idx == in_flight {
                FAULT_RETRY_TIMEOUT_S
            } else {
                FAULT_TIMEOUT_S
            };
            match rx.recv_timeout(std::time::Duration::from_secs(budget)) {
                Ok(line) => {
                    got_any = true;
                    if let Some(rest) = line.strip_prefix("B ") {
                        in_flight = rest.trim().parse().ok();
                    } else if let Some(rest) = line.strip_prefix("R ") {
                        let mut it = rest.splitn(2, ' ');
                        let idx: usize = it.next().and_then(|x| x.parse().ok()).unwrap_or(0);
                        let verdict = it.next().unwrap_or("");
                        start = idx + 1;
                        in_flight = None;
                        if let Some(diff) = verdict.strip_prefix("DIFFERENT ") {
                            let _ = child.kill();
                            let _ = child.wait();
                            return Err(Failure {
                                op_index: idx,
                                what: format!(
                                    "fault {:?}: corrupted data was served without an error: {diff}",
                                    job.faults[idx]
                                ),
                            });
                        }
                        match verdict {
                            "same" => stats.bump("c10.same_answer"),
                            "err-open" => {
                                stats.bump("c10.err_open");
                                consumed_by_reads += 1;
                            }
                            "err-read" => {
                                stats.bump("c10.err_read");
                                consumed_by_reads += 1;
                            }
                            "panic" => {
                                stats.bump("c10.loud_panic");
                                consumed_by_reads += 1;
                            }
                            _ => stats.bump("c10.other"),
                        }
                    }
                }
                Err(std::sync::mpsc::RecvTimeoutError::Timeout) => {
                    // a hang is neither an answer nor a violation: remember it (the check ends with exit 2
                    // unless a real violation is found), restart the worker behind this fault, carry on
                    let _ = child.kill();
                    if in_flight.is_some() && retry_idx != in_flight {
                        retry_idx = in_flight;
                        start = in_flight.unwrap_or(start);
                        in_flight = None;
                        stats.bump("c10.timeout_retried");
                        break;
                    }
                    stats.bump("c10.hang");
                    hangs_here += 1;
                    note_hang(format!("{:?}", in_flight.map(|i| job.faults[i].clone())));
                    match in_flight {
                        Some(i) => {
                            start = i + 1;
                            in_flight = None;
                        }
                        None => start += 1,
                    }
                    break;
                }
                Err(std::sync::mpsc::RecvTimeoutError::Disconnected) => break,
            }
        }
        let _ = child.wait();
        if let Some(i) = in_flight {
            // the worker died (abort / OOM kill) while processing fault i: loud failure
            stats.bump("c10.loud_abort");
            start = i + 1;
        } else if start < nfaults && job.start == start && retry_idx != Some(start) {
            // no progress at all: harness problem
            return Err(fail("HARNESS: C10 worker made no progress".into()));
        }
    }
    stats.add("c10.faults_detected_or_consumed", consumed_by_reads);
    Ok(stats)
}

const FAULT_TIMEOUT_S: u64 = 20;
const FAULT_RETRY_TIMEOUT_S: u64 = 120;
const WORKER_STARTUP_TIMEOUT_S: u64 = 300;

static HANGS: std::sync::Mutex<Vec<String>> = std::sync::Mutex::new(Vec::new());

fn note_hang(what: String) {
    if let Ok(mut h) = HANGS.lock() {
        if h.len() < 5 {
            h.push(what);
        }
    }
}

/// faults on which a worker exceeded its 20 s budget (first few)
pub fn hangs() -> Vec<String> {
    HANGS.lock().map(|h| h.clone()).unwrap_or_default()
}

pub fn nontrivial(s: &Stats) -> bool {
    s.get("c10.faults") > 0 && s.get("c10.err_read") + s.get("c10.err_open") > 0 && s.get("c10.empty_directory") == 0
}
