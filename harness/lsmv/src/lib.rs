pub fn hello() {}
