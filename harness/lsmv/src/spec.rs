//! Serializable case language: configuration specs, key pools, abstract operations.
//!
//! Abstract operations carry *indices and fractions*, never concrete referents, so that every
//! sub-sequence of a valid history is valid (proptest can shrink by deleting ops).

use serde::{Deserialize, Serialize};

#[derive(Serialize, Deserialize, Clone, Debug, PartialEq)]
pub enum FilterSpec {
    None,
    Bpk(f32),
    Fpr(f32),
}

#[derive(Serialize, Deserialize, Clone, Debug, PartialEq)]
pub struct BlobSpec {
    pub threshold: u32,
    pub target: u64,
    pub staleness: f32,
    pub age_cutoff: f32,
    pub lz4: bool,
}

#[derive(Serialize, Deserialize, Clone, Debug, PartialEq)]
pub struct CfgSpec {
    pub blob: Option<BlobSpec>,
    pub block_size: Vec<u32>,
    pub restart: Vec<u8>,
    pub hash_ratio: Vec<f32>,
    pub index_part: Vec<bool>,
    pub filter_part: Vec<bool>,
    pub pin_index: Vec<bool>,
    pub pin_filter: Vec<bool>,
    pub filter: Vec<FilterSpec>,
    pub expect_hits: bool,
    pub data_lz4: Vec<bool>,
    pub index_lz4: Vec<bool>,
    pub cache_bytes: u64,
    pub fd_table: Option<usize>,
}

impl CfgSpec {
    pub fn plain() -> Self {
        Self {
            blob: None,
            block_size: vec![4096],
            restart: vec![16],
            hash_ratio: vec![0.0],
            index_part: vec![false],
            filter_part: vec![false],
            pin_index: vec![true],
            pin_filter: vec![true],
            filter: vec![FilterSpec::Bpk(10.0)],
            expect_hits: false,
            data_lz4: vec![false],
            index_lz4: vec![false],
            cache_bytes: 16 << 20,
            fd_table: Some(256),
        }
    }
}

/// One side of a range bound, referring to the key pool.
#[derive(Serialize, Deserialize, Clone, Debug, PartialEq)]
pub enum BoundSpec {
    Unbounded,
    /// key index fraction, variant (0 = the key itself, 1 = key + 0x00, 2 = key minus last byte (if non-empty),
    /// 3 = key with last byte +1), inclusive?
    Key { k: u16, variant: u8, incl: bool },
}

#[derive(Serialize, Deserialize, Clone, Debug, PartialEq)]
pub enum WKind {
    /// value with a length class
    Put(u8),
    Del,
    WeakDel,
}

/// A scan query (C03): bounds or prefix, snapshot selector, consumption string, overlay
#[derive(Serialize, Deserialize, Clone, Debug, PartialEq)]
pub struct ScanSpec {
    /// None => range scan with (lo, hi); Some => prefix scan
    pub prefix: Option<(u16, u8)>, // key idx fraction, prefix length fraction (0..=255 of key len, 255 => full key + 0xFF tail variants)
    pub lo: BoundSpec,
    pub hi: BoundSpec,
    /// 0 = latest visible, 1 = SeqNo::MAX, >=2 => live snapshot slot (n-2) if exists else latest
    pub snap: u8,
    /// consumption string: true = next, false = next_back
    pub pops: Vec<bool>,
    /// after `pops` ends: drain from front (true) or back (false)
    pub drain_front: bool,
    /// overlay memtable entries: (key idx, kind)
    pub overlay: Vec<(u16, WKind)>,
    /// which accessor to use on guards: 0 into_inner, 1 key, 2 size
    pub accessor: u8,
}

#[derive(Serialize, Deserialize, Clone, Debug, PartialEq)]
pub enum Op {
    Insert { k: u16, len: u8 },
    Remove { k: u16 },
    RemoveWeak { k: u16 },
    Batch { items: Vec<(u16, WKind)> },
    /// write `n` consecutive pool keys starting at index fraction `start` (bulk load / bulk delete)
    Fill { start: u16, n: u16, len: u8, del: bool, one_seqno: bool },
    /// two writers that drew consecutive seqnos and finished in the opposite order: key `a` is inserted
    /// with the LATER seqno first, then key `b` (a different key) with the earlier one
    Swapped { a: u16, b: u16, len: u8 },
    Rotate,
    Flush { wm: u16 },
    FlushActive { wm: u16 },
    Leveled { l0: u8, target_log2: u8, ratio_x10: u8, wm: u16 },
    Major { target_log2: u8, wm: u16 },
    MoveDown { pair: u8, wm: u16 },
    PullDown { pair: u8, wm: u16 },
    Reopen { cfg: u8, restart_counters: bool },
    SnapOpen,
    SnapRelease { slot: u8 },
    Ingest { entries: Vec<(u16, WKind)>, pre_writes: Vec<(u16, WKind)> },
    DropRange { lo: BoundSpec, hi: BoundSpec },
    Clear,
    Scan(ScanSpec),
    /// open a long-lived range iterator at the newest snapshot (or a live one) and keep it across ops
    IterOpen { lo: BoundSpec, hi: BoundSpec, snap: u8 },
    /// consume items from a held iterator: pops (true = next, false = next_back)
    IterStep { slot: u8, pops: Vec<bool> },
    /// drain the rest of a held iterator and release it
    IterClose { slot: u8, front: bool },
    /// FIFO (C19 only)
    Fifo { limit_code: u8, ttl_code: u8 },
    /// advance virtual clock by n seconds (C19 only)
    Clock { secs: u8 },
}

/// Verdict table for a compaction filter (C17): verdict = table[hash(key, value) % len]
#[derive(Serialize, Deserialize, Clone, Debug, PartialEq)]
pub enum VerdictSpec {
    Keep,
    Remove,
    RemoveWeak,
    Replace(u8), // replacement length class
    Destroy,
}

#[derive(Serialize, Deserialize, Clone, Debug, PartialEq)]
pub struct Case {
    pub keys: Vec<Vec<u8>>,
    /// cfgs[0] is the initial configuration; Reopen may switch to another
    pub cfgs: Vec<CfgSpec>,
    pub ops: Vec<Op>,
    /// compaction filter verdict table (empty = no filter)
    pub verdicts: Vec<VerdictSpec>,
    /// number of leading pool keys that follow the weak-delete discipline
    pub weak_keys: u16,
    /// allow several insert/weak-delete generations per discipline key (C13 witness only)
    pub multi_gen: bool,
}

pub fn key_index(k: u16, len: usize) -> usize {
    // monotone mapping (never `%`) so that shrinking k towards 0 moves towards key 0
    ((k as usize) * len) >> 16
}

/// Value length classes; chosen to straddle the blob thresholds {1, 8, 64, 1024} and block sizes.
pub fn value_len(class: u8) -> usize {
    const L: [usize; 16] = [
        12, 0, 7, 8, 9, 20, 63, 64, 65, 200, 1023, 1024, 1025, 5000, 300, 70_000,
    ];
    L[(class as usize * L.len()) >> 8]
}
