//! Ordered-map MVCC reference model (the oracle for every history-based property).

use std::collections::{BTreeMap, BTreeSet};

pub type Key = Vec<u8>;
pub type SeqNo = u64;

#[derive(Clone, Debug, PartialEq, Eq)]
pub enum Kind {
    Val(Vec<u8>),
    Tomb,
    WeakTomb,
}

#[derive(Clone, Copy, Debug, PartialEq, Eq)]
pub enum Loc {
    Active,
    Sealed,
    Durable,
}

#[derive(Clone, Debug)]
pub struct Write {
    pub seqno: SeqNo,
    pub kind: Kind,
    pub loc: Loc,
    /// written by a bulk ingestion
    pub ingested: bool,
}

/// What the model says a read must return.
#[derive(Clone, Debug, PartialEq, Eq)]
pub enum Expect {
    /// exactly this (None = absent), with the seqno of the deciding write if a value
    Exact(Option<(Vec<u8>, SeqNo)>),
    /// the properties leave the answer open: any value ever written for the key, or none
    Loose,
}

/// A key whose history older than `boundary` is unreliable for snapshots above `from`
/// (`from == None`: for every snapshot, used after a reopen)
#[derive(Clone, Copy, Debug, PartialEq, Eq)]
pub struct Taint {
    pub from: Option<SeqNo>,
    pub boundary: SeqNo,
}

#[derive(Clone, Debug, Default)]
pub struct Model {
    /// every write, per key, ascending seqno
    pub writes: BTreeMap<Key, Vec<Write>>,
    /// version seqnos at which `clear()` took effect
    pub clears: Vec<SeqNo>,
    /// per key: version seqno of the latest event that makes older history unreliable
    /// (inside a drop_range; Destroy/RemoveWeak verdict on a multi-version key)
    pub taint: BTreeMap<Key, Vec<Taint>>,
    /// rewrites by a compaction filter: (key, seqno of the rewritten write) -> (new kind, from version seqno)
    pub rewrites: BTreeMap<(Key, SeqNo), Vec<(Kind, SeqNo)>>,
    /// every value ever written (or produced by a filter replacement) per key
    pub ever: BTreeMap<Key, BTreeSet<Vec<u8>>>,
}

impl Model {
    pub fn put(&mut self, key: &[u8], seqno: SeqNo, kind: Kind, loc: Loc, ingested: bool) {
        if let Kind::Val(v) = &kind {
            self.ever.entry(key.to_vec()).or_default().insert(v.clone());
        }
        let e = self.writes.entry(key.to_vec()).or_default();
        // keep ascending by seqno (ingestion seqnos are always the newest at the time they are added)
        let pos = e.partition_point(|w| w.seqno <= seqno);
        e.insert(
            pos,
            Write {
                seqno,
                kind,
                loc,
                ingested,
            },
        );
    }

    fn floor(&self, snap: SeqNo) -> Option<SeqNo> {
        self.clears.iter().rev().find(|v| **v < snap).copied()
    }

    /// The write that decides a read of `key` at snapshot `snap`, ignoring taint
    pub fn deciding(&self, key: &[u8], snap: SeqNo) -> Option<&Write> {
        let floor = self.floor(snap);
        self.writes.get(key).and_then(|ws| {
            ws.iter()
                .rev()
                .find(|w| w.seqno < snap && floor.map_or(true, |f| w.seqno > f))
        })
    }

    pub fn rewrite(&mut self, key: &[u8], seqno: SeqNo, kind: Kind, from: SeqNo) {
        if let Kind::Val(v) = &kind {
            self.ever.entry(key.to_vec()).or_default().insert(v.clone());
        }
        self.rewrites
            .entry((key.to_vec(), seqno))
            .or_default()
            .push((kind, from));
    }

    pub fn effective_kind(&self, key: &[u8], w: &Write, snap: SeqNo) -> Kind {
        if let Some(chain) = self.rewrites.get(&(key.to_vec(), w.seqno)) {
            if let Some((k, _)) = chain.iter().rev().find(|(_, from)| *from < snap) {
                return k.clone();
            }
        }
        w.kind.clone()
    }

    pub fn read(&self, key: &[u8], snap: SeqNo) -> Expect {
        let w = self.deciding(key, snap);
        if let Some(ts) = self.taint.get(key) {
            // any taint event this snapshot can see whose boundary lies above the deciding write
            if ts
                .iter()
                .filter(|t| t.from.map_or(true, |f| f < snap))
                .any(|t| w.map_or(true, |w| w.seqno < t.boundary))
            {
                return Expect::Loose;
            }
        }
        match w {
            None => Expect::Exact(None),
            Some(w) => match self.effective_kind(key, w, snap) {
                Kind::Val(v) => Expect::Exact(Some((v, w.seqno))),
                Kind::Tomb | Kind::WeakTomb => Expect::Exact(None),
            },
        }
    }

    /// All keys the model knows (for scans)
    pub fn keys(&self) -> impl Iterator<Item = &Key> {
        self.writes.keys()
    }

    /// Ordered scan at a snapshot: (key, Expect) for every key whose answer is a value or loose.
    pub fn scan(&self, snap: SeqNo) -> Vec<(Key, Expect)> {
        let mut out = vec![];
        let keys: BTreeSet<&Key> = self.writes.keys().chain(self.taint.keys()).collect();
        for k in keys {
            match self.read(k, snap) {
                Expect::Exact(None) => {}
                e => out.push((k.clone(), e)),
            }
        }
        out
    }

    pub fn taint_key(&mut self, key: &[u8], version_seqno: SeqNo) {
        self.taint.entry(key.to_vec()).or_default().push(Taint {
            from: Some(version_seqno),
            boundary: version_seqno,
        });
    }

    /// like `taint_key` but only history older than `boundary` becomes unreliable
    pub fn taint_key_bounded(&mut self, key: &[u8], version_seqno: SeqNo, boundary: SeqNo) {
        self.taint.entry(key.to_vec()).or_default().push(Taint {
            from: Some(version_seqno),
            boundary,
        });
    }

    pub fn was_ever_written(&self, key: &[u8], value: &[u8]) -> bool {
        self.ever.get(key).map_or(false, |s| s.contains(value))
    }

    pub fn rotate(&mut self) {
        for ws in self.writes.values_mut() {
            for w in ws.iter_mut() {
                if w.loc == Loc::Active {
                    w.loc = Loc::Sealed;
                }
            }
        }
    }

    pub fn flush_sealed(&mut self) {
        for ws in self.writes.values_mut() {
            for w in ws.iter_mut() {
                if w.loc == Loc::Sealed {
                    w.loc = Loc::Durable;
                }
            }
        }
    }

    pub fn has_active(&self) -> bool {
        let floor = self.clears.last().copied();
        self.writes.values().any(|ws| {
            ws.iter()
                .any(|w| w.loc == Loc::Active && floor.map_or(true, |f| w.seqno > f))
        })
    }

    pub fn has_sealed(&self) -> bool {
        let floor = self.clears.last().copied();
        self.writes.values().any(|ws| {
            ws.iter()
                .any(|w| w.loc == Loc::Sealed && floor.map_or(true, |f| w.seqno > f))
        })
    }

    /// Highest seqno among unflushed writes that are still part of the newest view
    pub fn highest_mem_seqno(&self) -> Option<SeqNo> {
        let floor = self.clears.last().copied();
        self.writes
            .values()
            .flat_map(|ws| ws.iter())
            .filter(|w| w.loc != Loc::Durable && floor.map_or(true, |f| w.seqno > f))
            .map(|w| w.seqno)
            .max()
    }

    /// A reopen: memtable content is lost, pre-clear history is gone, no old snapshot survives.
    /// Only the newest surviving durable write per key matters from here on; tombstones are dropped
    /// (absent either way), which keeps the model right when the counters restart below an evicted
    /// tombstone's seqno.
    pub fn reopen(&mut self, restart_seqno: SeqNo) {
        let floor = self.clears.last().copied();
        let mut next: BTreeMap<Key, Vec<Write>> = BTreeMap::new();
        for (k, ws) in &self.writes {
            if self.taint.contains_key(k) {
                // unreliable history: anything ever written may or may not have survived
                continue;
            }
            let newest = ws
                .iter()
                .rev()
                .find(|w| w.loc == Loc::Durable && floor.map_or(true, |f| w.seqno > f));
            if let Some(w) = newest {
                let kind = self.effective_kind(k, w, SeqNo::MAX);
                if let Kind::Val(v) = kind {
                    next.insert(
                        k.clone(),
                        vec![Write {
                            seqno: w.seqno,
                            kind: Kind::Val(v),
                            loc: Loc::Durable,
                            ingested: w.ingested,
                        }],
                    );
                }
            }
        }
        self.writes = next;
        self.clears.clear();
        self.rewrites.clear();
        // tainted keys stay unreliable for everything that existed before the reopen
        for t in self.taint.values_mut() {
            *t = vec![Taint {
                from: None,
                boundary: restart_seqno,
            }];
        }
    }
}
