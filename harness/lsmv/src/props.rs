//! Per-property check specifications (generator profile, audits, twin mode, non-triviality rule).

use crate::exec::{Audits, Stats};
use crate::gen::{BlobMode, GenProfile, Weights};
use crate::runner::{CheckSpec, Twin};

fn base_gen() -> GenProfile {
    GenProfile {
        max_ops: 100,
        min_keys: 6,
        max_keys: 40,
        blob: BlobMode::Never,
        w: Weights::base(),
        n_cfgs: 1,
        weak_keys_max: 0,
        multi_gen: false,
        verdicts: false,
        tiny: false,
        big_values: true,
        big_pool_pct: 6,
        dense_pct: 0,
    }
}

fn rich_layout(s: &Stats) -> bool {
    s.get("layout.2sealed") > 0 || s.get("layout.multi_l0_runs") > 0 || s.get("layout.3levels") > 0
}

fn compaction_happened(s: &Stats) -> bool {
    s.get("c.merge") + s.get("m.major") + s.get("m.pulldown") > 0
}

/// Directed prefix for a quarter of the C08 / C09 cases: one blob file shared by many small tables of the
/// last level, then repeated "overwrite, flush, push down level by level" rounds, so that partial merges at
/// the last level meet a stale blob file that tables outside the merge still reference (the guard in
/// `pick_blob_files_to_rewrite`), relocation happens in partial compactions, and garbage is recorded by
/// several compactions for the same file. The generated ops follow the prefix.
fn relocation_prefix(c: &mut crate::spec::Case) {
    use crate::spec::Op;
    if c.keys.len() % 4 != 1 || c.keys.len() < 6 {
        return;
    }
    let h = crate::util::fnv(&c.keys[0]);
    for cfg in c.cfgs.iter_mut() {
        if let Some(b) = cfg.blob.as_mut() {
            b.threshold = 1;
            b.target = 64 << 20;
            b.staleness = 0.000_001;
            b.age_cutoff = 1.0;
        }
    }
    let mut pre = vec![
        Op::Fill { start: 0, n: c.keys.len() as u16, len: 0, del: false, one_seqno: h % 2 == 0 },
        Op::FlushActive { wm: u16::MAX },
        // split into many tiny tables in the last level, all pointing into the one blob file
        Op::Major { target_log2: 5 + (h % 3) as u8, wm: u16::MAX },
    ];
    let rounds = 2 + (h / 7) % 3;
    for r in 0..rounds {
        // overwrite (or delete) one or two neighbouring keys of the same region
        let k = (((h >> 8) + r * 1111) % 20_000) as u16;
        pre.push(Op::Insert { k, len: 0 });
        if (h >> 5) % 2 == 0 {
            pre.push(Op::Remove { k: k.saturating_add(3000) });
        }
        pre.push(Op::FlushActive { wm: u16::MAX });
        for _ in 0..6 {
            pre.push(Op::Leveled { l0: 1, target_log2: (h % 3) as u8, ratio_x10: 10, wm: u16::MAX });
        }
    }
    pre.append(&mut c.ops);
    c.ops = pre;
}

const ASSUME_COMMON: [&str; 4] = [
    "usage protocol: seqnos from the tree's counter, snapshots = visible_seqno.get(), GC watermark strictly below every live snapshot",
    "MoveDown/PullDown only with a<b, empty intermediate levels, single-run source, destination disjoint (the way tests and benches use them)",
    "remove_weak only on keys written once (outside C13)",
    "results bounded by generated sizes; not a proof",
];

pub fn spec(id: &str) -> Option<CheckSpec> {
    let mut g = base_gen();
    let mut a = Audits::default();
    match id {
        "C01" => {
            g.weak_keys_max = 4;
            g.w.remove_weak = 3;
            g.n_cfgs = 2;
            g.blob = BlobMode::Never;
            g.dense_pct = 4;
            a.point = true;
            a.point_deep = true;
            a.absent_probes = true;
            a.scan_latest = false;
            Some(CheckSpec {
                id: "C01",
                level: "exploration",
                gen: g,
                audits: a,
                twin: Twin::None,
                cases_quick: 12000,
                cases_thorough: 120000,
                ops_quick: 100,
                ops_thorough: 300,
                nontrivial: |s| {
                    rich_layout(s)
                        && compaction_happened(s)
                        && s.get("w.remove") + s.get("w.remove_weak") > 0
                },
                rule: "histories over {insert, remove, batch, rotate, flush, leveled/major/movedown/pulldown compaction, reopen, once-only weak delete} x generated Config; after every op every pool key and absent neighbour is read (get, contains_key, size_of, get_internal_entry at visible and MAX) and compared with the ordered-map model. Non-trivial = some read happened with >=2 sealed memtables or >=2 L0 runs or >=3 populated levels AND a merging compaction ran AND the history contains a delete. Distinct = hash of the generated case.",
                assumptions: ASSUME_COMMON.to_vec(),
                finale: None,
                per_op: None,
                prepare: None,
            })
        }
        "C02" => {
            g.weak_keys_max = 3;
            g.w.remove_weak = 2;
            g.w.snap_open = 10;
            g.w.snap_release = 4;
            g.w.ingest = 3;
            g.w.drop_range = 2;
            g.w.clear = 1;
            g.w.reopen = 1;
            g.w.iter_open = 3;
            g.w.iter_step = 6;
            g.w.scan = 5;
            g.blob = BlobMode::Either;
            g.verdicts = false;
            a.point = true;
            a.snapshots = true;
            a.scan_latest = true;
            Some(CheckSpec {
                id: "C02",
                level: "exploration",
                gen: g,
                audits: a,
                twin: Twin::None,
                cases_quick: 12000,
                cases_thorough: 60000,
                ops_quick: 90,
                ops_thorough: 250,
                nontrivial: |s| s.get("snap.reread_after_gc") > 0 && compaction_happened(s),
                rule: "C01's histories plus snapshot open/release (<=6 live), ingestion, drop_range, clear on standard and blob trees; GC watermarks drawn from [0, min(live S)-1] biased to the top. Each snapshot's full answer (get of every pool key, full scan, len) is stored at first use and re-read after later ops; it must equal both the stored answer and the MVCC model. Long-lived range iterators (<=3) are opened at a snapshot, kept across later ops and consumed piecemeal from both ends; they must keep yielding the model's answer as of their snapshot (they count as held views for the watermark). Non-trivial = a snapshot was re-read after a version change performed with a non-zero watermark AND a merging compaction ran. Distinct = hash of the case.",
                assumptions: ASSUME_COMMON.to_vec(),
                finale: None,
                per_op: None,
                prepare: None,
            })
        }
        "C03" => {
            g.w.scan = 40;
            g.dense_pct = 2;
            g.w.snap_open = 4;
            g.w.snap_release = 1;
            g.w.reopen = 1;
            g.tiny = true;
            g.big_values = false;
            g.blob = BlobMode::Either;
            g.min_keys = 8;
            g.max_keys = 48;
            a.point = false;
            Some(CheckSpec {
                id: "C03",
                level: "exploration",
                gen: g,
                audits: a,
                twin: Twin::None,
                cases_quick: 24000,
                cases_thorough: 120000,
                ops_quick: 90,
                ops_thorough: 200,
                nontrivial: |s| {
                    s.get("scan.multi_source") > 0
                        && s.get("scan.bound_inside_span") > 0
                        && s.get("scan.alternating") > 0
                },
                rule: "layouts built by short histories (memtables, several L0 runs, multi-table runs via tiny target sizes, many blocks via block size 1-128) interleaved with scan queries: bounds (pool key | neighbour) x {incl, excl, unbounded} incl. empty/inverted, prefixes (every length, 0xFF-terminated, empty), snapshot in {live, latest, MAX}, a next/next_back consumption string then drain, optional overlay memtable, accessor in {into_inner,key,size}. Oracle: two-ended consumption of the model's ordered answer; also first/last_key_value, len, is_empty. Non-trivial = a query ran over >=2 physical sources with a bound strictly inside the populated span and >=2 direction changes. Distinct = hash of the case.",
                assumptions: ASSUME_COMMON.to_vec(),
                finale: None,
                per_op: None,
                prepare: None,
            })
        }
        "C04" => {
            g.w.reopen = 8;
            g.w.ingest = 3;
            g.w.drop_range = 1;
            g.w.clear = 1;
            g.weak_keys_max = 3;
            g.w.remove_weak = 2;
            g.n_cfgs = 3;
            g.blob = BlobMode::Either;
            a.point = true;
            a.point_deep = true;
            a.scan_latest = true;
            a.seqno_marks = true;
            Some(CheckSpec {
                id: "C04",
                level: "exploration",
                gen: g,
                audits: a,
                twin: Twin::None,
                cases_quick: 12000,
                cases_thorough: 80000,
                ops_quick: 80,
                ops_thorough: 250,
                nontrivial: |s| s.get("reopen.rich_layout") > 0 && s.get("m.flush") > 0 && s.get("m.reopen") > 0,
                rule: "histories (standard and blob trees) with reopen at arbitrary positions, optionally with another physical Config and with fresh counters restarted at get_highest_seqno()+1. Before the drop the model's durable content is fixed; after open every key (value and seqno), full scan, table/blob file counts and the persisted seqno mark must equal it, and the history continues (write/flush/compact must succeed without id collisions). Non-trivial = a reopen happened with >=2 L0 runs or >=3 populated levels, with flushes in the history. Distinct = hash of the case.",
                assumptions: ASSUME_COMMON.to_vec(),
                finale: None,
                per_op: None,
                prepare: None,
            })
        }
        "C07" => {
            g.tiny = true;
            g.w.ingest = 3;
            g.w.drop_range = 2;
            g.w.clear = 1;
            g.w.insert = 40;
            g.w.batch = 8;
            g.weak_keys_max = 3;
            g.w.remove_weak = 2;
            g.blob = BlobMode::Either;
            g.big_values = false;
            a.structure = true;
            a.manifest = true;
            Some(CheckSpec {
                id: "C07",
                level: "exploration",
                gen: g,
                audits: a,
                twin: Twin::None,
                cases_quick: 24000,
                cases_thorough: 100000,
                ops_quick: 100,
                ops_thorough: 300,
                nontrivial: |s| s.get("struct.3tables_and_shared_key") > 0,
                rule: "histories biased to many small tables (target size 1 B-4 KiB, block size 1-128, multi-version keys); after every op the published version is audited: runs sorted and disjoint, one table per key per run, read-order seqno intervals strictly descending per key, table metadata (key range, counts, max seqno) equal to Table::iter/scan contents, files exist, and `current`+`v<N>` parsed by an independent decoder equal the in-memory version. Non-trivial = a version with >=3 tables in one run and a key shared by >=2 tables. Distinct = hash of the case.",
                assumptions: ASSUME_COMMON.to_vec(),
                finale: None,
                per_op: None,
                prepare: None,
            })
        }
        "C18" => {
            g.w.ingest = 4;
            g.w.drop_range = 3;
            g.w.clear = 2;
            g.w.reopen = 3;
            g.weak_keys_max = 3;
            g.w.remove_weak = 2;
            g.blob = BlobMode::Either;
            g.big_values = false;
            a.seqno_marks = true;
            Some(CheckSpec {
                id: "C18",
                level: "exploration",
                gen: g,
                audits: a,
                twin: Twin::None,
                cases_quick: 24000,
                cases_thorough: 120000,
                ops_quick: 100,
                ops_thorough: 300,
                nontrivial: |s| s.get("marks.decreased") > 0 || s.get("marks.max_is_ingested") > 0,
                rule: "histories incl. ingestion (shifted seqnos), GC evicting the newest entry, drop_range, clear, trivial moves, reopen; after every op get_highest_persisted_seqno == max seqno over all items of all tables (via Table::iter), get_highest_memtable_seqno == max seqno of the model's unflushed writes, get_highest_seqno == max of both, and the persisted mark is identical across reopen. Non-trivial = the persisted mark decreased at least once or the maximum is carried by an ingested table. Distinct = hash of the case.",
                assumptions: ASSUME_COMMON.to_vec(),
                finale: None,
                per_op: None,
                prepare: None,
            })
        }
        "C14" => {
            g.w.ingest = 12;
            g.w.snap_open = 8;
            g.w.snap_release = 3;
            g.w.reopen = 2;
            g.weak_keys_max = 3;
            g.w.remove_weak = 2;
            g.blob = BlobMode::Either;
            a.point = true;
            a.point_deep = true;
            a.snapshots = true;
            a.scan_latest = true;
            Some(CheckSpec {
                id: "C14",
                level: "exploration",
                gen: g,
                audits: a,
                twin: Twin::None,
                cases_quick: 6000,
                cases_thorough: 60000,
                ops_quick: 80,
                ops_thorough: 250,
                nontrivial: |s| s.get("m.ingest") > 0 && s.get("snap.reread_after_version_change") > 0 && compaction_happened(s),
                rule: "histories with bulk ingestions (sorted batches of values/tombstones/once-only weak tombstones, values on both sides of the blob threshold, optional ordinary writes between ingestion() and finish()) interleaved with writes, snapshots, flushes, compactions and reopen. The model gives every ingested entry the seqno G drawn by finish(); snapshots opened before see none of the batch, later ones all of it; get_internal_entry must report G. Non-trivial = an ingestion happened, a snapshot was re-read after a version change, and a merging compaction ran. Distinct = hash of the case.",
                assumptions: ASSUME_COMMON.to_vec(),
                finale: None,
                per_op: None,
                prepare: None,
            })
        }
        "C15" => {
            g.w.drop_range = 10;
            g.w.clear = 4;
            g.w.snap_open = 8;
            g.w.snap_release = 3;
            g.w.reopen = 2;
            g.w.ingest = 2;
            g.tiny = true;
            g.blob = BlobMode::Either;
            g.big_values = false;
            a.point = true;
            a.snapshots = true;
            a.scan_latest = true;
            Some(CheckSpec {
                id: "C15",
                level: "exploration",
                gen: g,
                audits: a,
                twin: Twin::None,
                cases_quick: 20000,
                cases_thorough: 80000,
                ops_quick: 80,
                ops_thorough: 250,
                nontrivial: |s| s.get("m.drop_range_dropped") > 0 && s.get("snap.reread_after_version_change") > 0,
                rule: "histories with drop_range (bounds from pool keys and neighbours, incl/excl/unbounded, empty and inverted) and clear, snapshots before and after, later writes, reopen. After drop_range(R): keys outside R read exactly as the model says at every snapshot, snapshots taken before keep their stored full view, keys inside R may only return a value written for them or nothing until rewritten; empty/inverted R must not change the table set. After clear: later snapshots see only later writes, earlier snapshots keep their view; both persist across reopen. Non-trivial = a drop_range actually removed tables and a snapshot was re-read afterwards. Distinct = hash of the case.",
                assumptions: ASSUME_COMMON.to_vec(),
                finale: None,
                per_op: None,
                prepare: None,
            })
        }
        "C20" => {
            g.w.drop_range = 3;
            g.w.clear = 2;
            g.w.iter_open = 4;
            g.w.iter_step = 8;
            g.w.snap_open = 5;
            g.w.snap_release = 6;
            g.w.reopen = 2;
            g.w.ingest = 2;
            g.tiny = true;
            g.blob = BlobMode::Either;
            g.big_values = false;
            a.files = true;
            Some(CheckSpec {
                id: "C20",
                level: "exploration",
                gen: g,
                audits: a,
                twin: Twin::None,
                cases_quick: 20000,
                cases_thorough: 100000,
                ops_quick: 100,
                ops_thorough: 300,
                nontrivial: |s| s.get("files.reclamation_checked_after_replacement") > 0,
                rule: "histories on standard and blob trees with watermark schedules that periodically exceed all past version changes after releasing all snapshots. Safety after every op: every file named by the current version and by every live snapshot's version (paths recorded when it was opened) exists, as do `current` and v<id>. Reclamation whenever version_free_list_len()==0 and no snapshot is live, and right after every open: tables/, blobs/ and v* contain exactly what the current version names. Watermarks above `visible` (legal while nobody holds a view) are generated so that the version history really empties. A second and a third stage (both tiers; 160+320 histories quick, 1200+2400 thorough) take the directories left by every crash image of the C05 enumeration and by every failed operation of the C16 enumeration and demand that one reopen leaves no unreferenced table / blob / version file. Non-trivial = the reclamation clause was evaluated with an empty free list after version installs in this session that replaced files (merge, major, pull-down, drop_range that dropped tables, or clear). Distinct = hash of the case.",
                assumptions: ASSUME_COMMON.to_vec(),
                finale: None,
                per_op: Some(|e, op| {
                    if matches!(op, crate::spec::Op::Reopen { .. }) {
                        let cur = crate::audit::version_files(e.tree());
                        let id = { use lsm_tree::AbstractTree; e.tree().current_version().id() };
                        crate::audit::reclamation(e, &cur, id, "right after open")?;
                        e.stats.bump("files.after_open_checked");
                    }
                    Ok(())
                }),
                prepare: None,
            })
        }
        "C08" => {
            g.blob = BlobMode::Always;
            g.w.insert = 40;
            g.w.remove = 12;
            g.w.batch = 6;
            g.w.snap_open = 5;
            g.w.snap_release = 4;
            g.w.ingest = 5;
            g.w.drop_range = 1;
            g.w.reopen = 3;
            g.w.major = 6;
            g.w.scan = 6;
            g.weak_keys_max = 2;
            g.w.remove_weak = 1;
            g.max_keys = 24;
            a.point = true;
            a.point_deep = true;
            a.scan_latest = true;
            a.snapshots = true;
            a.blob_ptr = true;
            Some(CheckSpec {
                id: "C08",
                level: "exploration",
                gen: g,
                audits: a,
                twin: Twin::StdVsBlob,
                cases_quick: 3000,
                cases_thorough: 30000,
                ops_quick: 90,
                ops_thorough: 250,
                nontrivial: |s| s.get("blob.file_left_version") > 0 && s.get("blob.pointers_checked") > 0,
                rule: "one history, two trees (Standard and Blob with generated KvSeparationOptions: threshold {1,8,64,1024}, blob file target {1,256,4096,64MiB}, staleness {~0,0.1,0.5,0.9}, age cutoff {0.25,0.5,1}, lz4 on/off), values on both sides of the threshold, overwrite/delete heavy with high watermarks. Every read (get, contains_key, size_of, scans incl. size() guards, len, snapshots, after reopen) must be identical on both trees and equal the model; after every op every Indirection item of every table must decode, name a blob file that is in the version and on disk, and hit a frame (parsed by the harness) with the same key, sizes, valid checksum and the bytes written for that (key, seqno). Non-trivial = a blob file left the version (relocation or dead-file drop) while pointers were being checked. Distinct = hash of the case.",
                assumptions: ASSUME_COMMON.to_vec(),
                finale: None,
                per_op: None,
                prepare: Some(relocation_prefix),
            })
        }
        "C09" => {
            g.blob = BlobMode::Always;
            g.w.insert = 40;
            g.w.remove = 12;
            g.w.batch = 6;
            g.w.ingest = 3;
            g.w.drop_range = 3;
            g.w.clear = 1;
            g.w.reopen = 3;
            g.w.major = 5;
            g.verdicts = true;
            g.max_keys = 24;
            a.gc_stats = true;
            Some(CheckSpec {
                id: "C09",
                level: "exploration",
                gen: g,
                audits: a,
                twin: Twin::None,
                cases_quick: 16000,
                cases_thorough: 80000,
                ops_quick: 90,
                ops_thorough: 250,
                nontrivial: |s| s.get("blob.partial_garbage") > 0,
                rule: "blob-tree histories (overwrites, deletes, compaction filter with all verdicts in half of the cases, drop_range, ingestion, relocation, reopen). After every op, for each blob file F of the version: gc_stats[F] == (frames(F) - refs(F)) in count, value bytes and on-disk bytes, where frames are parsed from the file by the harness and refs are the pointers found by scanning every table; every pointer targets an existing frame of a file in the version; stale_blob_bytes() == sum of the recorded on-disk garbage; statistics are compared again after reopen. Entries for files that already left the version may linger (pinned by the existing test blob_tree_nuke_gc_stats) and are not demanded to vanish. Non-trivial = some op left a file with 0 < garbage < total. Distinct = hash of the case.",
                assumptions: ASSUME_COMMON.to_vec(),
                finale: None,
                per_op: None,
                prepare: Some(|c| {
                    // filter only in half of the cases
                    if c.keys.len() % 2 == 0 {
                        c.verdicts.clear();
                    }
                    relocation_prefix(c);
                }),
            })
        }
        "C11" => {
            g.n_cfgs = 3;
            g.blob = BlobMode::Either;
            g.dense_pct = 6;
            g.w.snap_open = 4;
            g.w.snap_release = 2;
            g.w.ingest = 2;
            g.w.scan = 8;
            g.w.reopen = 2;
            g.weak_keys_max = 2;
            g.w.remove_weak = 1;
            a.point = true;
            a.point_deep = true;
            a.scan_latest = true;
            a.snapshots = true;
            a.absent_probes = true;
            Some(CheckSpec {
                id: "C11",
                level: "exploration",
                gen: g,
                audits: a,
                twin: Twin::MultiCfg,
                cases_quick: 2400,
                cases_thorough: 24000,
                ops_quick: 80,
                ops_thorough: 200,
                nontrivial: |s| s.get("cfg.differ3") > 0 && (s.get("layout.3levels") > 0 || s.get("layout.multi_l0_runs") > 0),
                rule: "one history applied to 3 trees with independently generated Configs (block size, restart interval, hash ratio, index/filter partitioning and pinning, filter policy incl. none and expect_point_read_hits, compression, per-level policies) that all share ONE Cache (0 B, 4 KiB or 16 MiB) and ONE DescriptorTable (none, 1, 2, 256); identical histories give coinciding table and blob file ids. Every read (get/contains_key/size_of/internal entry at visible and MAX, absent probes, scans with bounds from both ends, snapshots, len) must equal the model on every tree and the trees must agree with each other. Non-trivial = two of the configs differ in >=3 dimensions and data sat in >=3 levels or >=2 L0 runs. Distinct = hash of the case.",
                assumptions: ASSUME_COMMON.to_vec(),
                finale: None,
                per_op: None,
                prepare: None,
            })
        }
        "C13" | "C13W" => {
            g.weak_keys_max = 16;
            g.w.remove_weak = 14;
            g.w.insert = 30;
            g.w.remove = 4;
            g.w.snap_open = 5;
            g.w.snap_release = 3;
            g.w.ingest = 2;
            g.w.scan = 4;
            g.w.pulldown = 8;
            g.w.movedown = 8;
            g.blob = BlobMode::Either;
            g.big_values = false;
            g.multi_gen = false;
            g.min_keys = 4;
            g.max_keys = 24;
            a.point = true;
            a.scan_latest = true;
            a.snapshots = true;
            Some(CheckSpec {
                id: "C13",
                level: "exploration",
                gen: g,
                audits: a,
                twin: Twin::WeakStrong,
                cases_quick: 8000,
                cases_thorough: 80000,
                ops_quick: 90,
                ops_thorough: 250,
                nontrivial: |s| s.get("w.remove_weak") > 0 && compaction_happened(s) && rich_layout(s),
                rule: "histories in which a generated subset of the keys follows the single-delete discipline (insert -> remove_weak, never overwritten or strongly deleted) while the other keys use the normal op set; all maintenance ops and legal watermarks, snapshots, ingestion of weak tombstones. Oracle: the model treats remove_weak as remove (point reads, scans, every live snapshot), and a differential twin runs the same history with remove substituted; both trees must agree on every read. Non-trivial = weak deletes happened, a merging compaction ran and data sat in >=2 sealed memtables / >=2 L0 runs / >=3 levels. Known finding (known_findings.json, signature weak-multigen): keys with >=2 insert/weak-delete generations can resurface an earlier generation; three quarters of the cases restrict discipline keys to one generation, one quarter allows several and tolerates (and counts) only failures carrying that signature. Distinct = hash of the case.",
                assumptions: ASSUME_COMMON.to_vec(),
                finale: None,
                per_op: None,
                prepare: Some(|c| {
                    if c.keys.len() % 4 == 0 {
                        c.multi_gen = true;
                    }
                }),
            })
        }
        "C17" => {
            g.verdicts = true;
            g.blob = BlobMode::Either;
            g.w.snap_open = 6;
            g.w.snap_release = 3;
            g.w.ingest = 2;
            g.w.reopen = 2;
            g.w.major = 6;
            g.w.leveled = 10;
            g.w.pulldown = 6;
            g.weak_keys_max = 2;
            g.w.remove_weak = 1;
            g.max_keys = 24;
            a.point = true;
            a.point_deep = true;
            a.scan_latest = true;
            a.snapshots = true;
            a.blob_ptr = true;
            a.gc_stats = true;
            Some(CheckSpec {
                id: "C17",
                level: "exploration",
                gen: g,
                audits: a,
                twin: Twin::None,
                cases_quick: 12000,
                cases_thorough: 80000,
                ops_quick: 80,
                ops_thorough: 250,
                nontrivial: |s| s.get("filter.newest_with_older_versions") > 0 && s.get("filter.replace") > 0 && s.get("filter.remove") + s.get("filter.weak_or_destroy_once") + s.get("filter.weak_or_destroy_multi") > 0,
                rule: "histories on standard and blob trees with a compaction filter factory whose verdict is a generated total function of (key, value) (table lookup on a hash: Keep / Remove / RemoveWeak / ReplaceValue(r) with r on either side of the separation threshold / Destroy) and which logs every call and always calls item.value() (so being shown a tombstone trips the crate's unreachable!). Values are unique, so each logged call identifies the model write it was shown. After the compaction publishes version V: Keep leaves the key unchanged, ReplaceValue reads r at the same seqno, Remove reads absent, RemoveWeak/Destroy read absent for keys written once and leave the answer open otherwise; keys not in the log read as before; snapshots opened earlier keep their stored answers; on blob trees the pointer audit (C08) and garbage accounting (C09) also run after every op. Non-trivial = the filter was shown a newest version of a key that has older versions, and both a replacement and a removing verdict took effect. Distinct = hash of the case.",
                assumptions: ASSUME_COMMON.to_vec(),
                finale: None,
                per_op: None,
                prepare: Some(|c| {
                    // values must identify the write they came from: no empty values here
                    fn fix(k: &mut crate::spec::WKind) {
                        if let crate::spec::WKind::Put(l) = k {
                            if crate::spec::value_len(*l) == 0 {
                                *l = 0;
                            }
                        }
                    }
                    for op in c.ops.iter_mut() {
                        match op {
                            crate::spec::Op::Insert { len, .. } | crate::spec::Op::Fill { len, .. } | crate::spec::Op::Swapped { len, .. } => {
                                if crate::spec::value_len(*len) == 0 {
                                    *len = 0;
                                }
                            }
                            crate::spec::Op::Batch { items } => items.iter_mut().for_each(|(_, k)| fix(k)),
                            crate::spec::Op::Ingest { entries, pre_writes } => {
                                entries.iter_mut().for_each(|(_, k)| fix(k));
                                pre_writes.iter_mut().for_each(|(_, k)| fix(k));
                            }
                            _ => {}
                        }
                    }
                }),
            })
        }
        _ => None,
    }
}

pub const ALL: [&str; 20] = [
    "C01", "C02", "C03", "C04", "C05", "C06", "C07", "C08", "C09", "C10", "C11", "C12", "C13",
    "C14", "C15", "C16", "C17", "C18", "C19", "C20",
];
