//! C16: every intercepted file-system call of a target op failed once (ENOSPC / EIO).

use crate::exec::{Audits, Exec, Failure, Stats};
use crate::model::{Expect, Model};
use crate::spec::{Case, Op};
use crate::util::hex;
use lsm_tree::{AbstractTree, AnyTree, SeqNo, SequenceNumberCounter};
use std::path::Path;

pub fn is_target(op: &Op) -> bool {
    matches!(
        op,
        Op::Flush { .. }
            | Op::FlushActive { .. }
            | Op::Leveled { .. }
            | Op::Major { .. }
            | Op::MoveDown { .. }
            | Op::PullDown { .. }
            | Op::Ingest { .. }
            | Op::DropRange { .. }
            | Op::Clear
    )
}

fn is_compacting(t: &AnyTree) -> bool {
    match t {
        AnyTree::Standard(t) => t.is_compacting(),
        AnyTree::Blob(b) => b.index.is_compacting(),
    }
}

fn audits() -> Audits {
    Audits {
        point: true,
        scan_latest: true,
        snapshots: true,
        ..Default::default()
    }
}

/// Build an Exec and run the prefix (all ops but the last); opens one snapshot right before the target.
fn prefix(case: &Case, dir: &Path) -> Result<Exec, String> {
    let mut ex = Exec::new(dir, case, audits(), None);
    ex.open()?;
    let n = case.ops.len() - 1;
    for op in &case.ops[..n] {
        ex.apply(op)?;
    }
    Ok(ex)
}

fn durable_expect(ex: &Exec, m: &Model) -> Vec<(Vec<u8>, Expect)> {
    let mut m = m.clone();
    m.reopen(u64::MAX / 2);
    ex.keys.iter().map(|k| (k.clone(), m.read(k, SeqNo::MAX))).collect()
}

fn reopen_copy_matches(case: &Case, ex: &Exec, src: &Path, scratch: &Path, allowed: &[&Model], what: &str) -> Result<(), String> {
    crate::util::rm_rf(scratch);
    crate::util::copy_dir(src, scratch).map_err(|e| format!("HARNESS: copy: {e}"))?;
    let shared = crate::cfg::Shared::from_spec(&case.cfgs[0]);
    let cfg = crate::cfg::build(
        &case.cfgs[ex.cfg_idx],
        scratch,
        SequenceNumberCounter::default(),
        SequenceNumberCounter::default(),
        &shared,
        None,
    );
    let t = cfg
        .open()
        .map_err(|e| format!("{what}: reopening a copy of the directory failed: {e:?}"))?;
    if crate::crash::reclaim_check_on() {
        // C20: whatever partial files the failed call left behind, one reopen reclaims them
        crate::audit::reclamation_of(scratch, &t, &format!("[C20] right after reopening the directory left by {what}"))
            .map_err(|e| format!("[C20] {e}"))?;
    }
    let mut got = vec![];
    for k in &ex.keys {
        let e = t
            .get_internal_entry(k, SeqNo::MAX)
            .map_err(|e| format!("{what}: get_internal_entry on the reopened copy: {e:?}"))?;
        let v = t.get(k, SeqNo::MAX).map_err(|e| format!("{what}: get on the reopened copy: {e:?}"))?;
        got.push(match (v, e) {
            (Some(v), Some(e)) => Some((v.to_vec(), e.key.seqno)),
            _ => None,
        });
    }
    drop(t);
    match match_models(ex, &got, allowed) {
        Ok(_) => Ok(()),
        Err(errs) => Err(format!(
            "{what}: reopening a copy of the directory yields neither the state before nor after the call ({errs})"
        )),
    }
}

type Got = Vec<Option<(Vec<u8>, SeqNo)>>;

/// index of the first allowed model whose durable content equals what was read back
fn match_models(ex: &Exec, got: &Got, allowed: &[&Model]) -> Result<usize, String> {
    let mut errs = vec![];
    for (mi, m) in allowed.iter().enumerate() {
        let exp = durable_expect(ex, m);
        let mut ok = true;
        for ((k, e), g) in exp.iter().zip(got.iter()) {
            match e {
                Expect::Exact(x) => {
                    if x != g {
                        ok = false;
                        errs.push(format!("key {}: expected {:?} got {:?}", hex(k), x.as_ref().map(|x| x.1), g.as_ref().map(|x| x.1)));
                        break;
                    }
                }
                Expect::Loose => {
                    if let Some((v, _)) = g {
                        if !m.was_ever_written(k, v) {
                            ok = false;
                            break;
                        }
                    }
                }
            }
        }
        if ok {
            return Ok(mi);
        }
    }
    Err(errs.join(" | "))
}

/// The same process drops the tree and opens the directory again (every Drop handler runs, unlike in
/// the copy-based check). The recovered content must be one of the allowed durable states; the
/// model continues from the one that matched.
fn reopen_in_place_fn(ex: &mut Exec, allowed: &[&Model], what: &str) -> Result<(), String> {
    ex.snaps.clear();
    ex.iters.clear();
    ex.tree = None;
    ex.open()
        .map_err(|e| format!("{what}: dropping the tree and reopening the directory in place failed: {e}"))?;
    let t = ex.tree().clone();
    let mut got: Got = vec![];
    for k in &ex.keys {
        let e = t
            .get_internal_entry(k, SeqNo::MAX)
            .map_err(|e| format!("{what}: get_internal_entry after reopening in place: {e:?}"))?;
        let v = t.get(k, SeqNo::MAX).map_err(|e| format!("{what}: get after reopening in place: {e:?}"))?;
        got.push(match (v, e) {
            (Some(v), Some(e)) => Some((v.to_vec(), e.key.seqno)),
            _ => None,
        });
    }
    drop(t);
    let mi = match_models(ex, &got, allowed).map_err(|errs| {
        format!("{what}: after dropping the tree and reopening it in place the content is neither the state before nor after the call ({errs})")
    })?;
    // the failed call may have drawn sequence numbers it never published; after a reopen a caller
    // positions its counters above everything that is stored (the documented restart rule)
    let next = ex.tree().get_highest_seqno().map_or(0, |h| h + 1);
    ex.seqno.fetch_max(next);
    ex.visible.fetch_max(next);
    let mut m = allowed[mi].clone();
    m.reopen(ex.visible.get());
    ex.model = m;
    ex.last_wm = 0;
    ex.installs_at_open = ex.installs;
    ex.layout_changed = true;
    ex.reopen_count += 1;
    crate::audit::after_op(ex).map_err(|w| format!("{what}: after dropping the tree and reopening it in place: {w}"))?;
    Ok(())
}

pub fn run(case: &Case, thorough: bool) -> Result<Stats, Failure> {
    let root = crate::runner::fresh_dir();
    let r = std::panic::catch_unwind(std::panic::AssertUnwindSafe(|| run_inner(case, &root, thorough)));
    let _ = crate::shim::end();
    crate::util::rm_rf(&root);
    match r {
        Ok(r) => r,
        Err(_) => Err(Failure {
            op_index: usize::MAX,
            what: format!("panic (harness level): {}", crate::runner::take_panic().unwrap_or_default()),
        }),
    }
}

fn run_inner(case: &Case, root: &Path, thorough: bool) -> Result<Stats, Failure> {
    let mut stats = Stats::default();
    if case.keys.is_empty() || case.ops.is_empty() || !is_target(case.ops.last().expect("op")) {
        return Ok(stats);
    }
    let target = case.ops.last().expect("op").clone();
    let ti = case.ops.len() - 1;
    let fail = |what: String| Failure { op_index: ti, what };
    // --- counting run
    let d0 = root.join("count");
    let mut ex = prefix(case, &d0).map_err(|w| fail(format!("prefix: {w}")))?;
    ex.max_snaps = 8;
    if case.keys.len() % 2 == 0 {
        ex.apply(&Op::SnapOpen).map_err(&fail)?;
    }
    crate::audit::after_op(&mut ex).map_err(|w| fail(format!("before target: {w}")))?;
    crate::shim::begin(&d0, false);
    crate::shim::with(|s| {
        s.count_reads = true;
        s.log_calls = true;
    });
    let r = ex.apply(&target);
    let sess = crate::shim::end().ok_or_else(|| fail("shim session lost".into()))?;
    r.map_err(|w| fail(format!("target op failed without any fault: {w}")))?;
    crate::audit::after_op(&mut ex).map_err(|w| fail(format!("after clean target: {w}")))?;
    let post_clean = ex.model.clone();
    let n = sess.calls;
    let names = sess.call_log.clone();
    drop(ex);
    stats.add("fault.calls_in_target", n);
    if n == 0 {
        stats.bump("fault.target_without_io");
        return Ok(stats);
    }
    let first_create = names.iter().position(|c| *c == "open(create)");
    // --- faulted runs
    let cap = if thorough { 2000 } else { 400 };
    let stride = ((n as usize) / cap).max(1) as u64;
    let mut k = 0u64;
    let mut run_no = 0u64;
    while k < n {
        let name = names[k as usize];
        let mutating = name != "read" && name != "pread" && name != "open";
        let errnos: &[i32] = if mutating {
            &[libc::ENOSPC, libc::EIO]
        } else {
            &[libc::EIO]
        };
        // variant false: retry the call on the live tree; variant true: drop the tree after the failed
        // call and reopen the directory in place (Drop handlers run, unlike in the copy-based check)
        for (&errno, reopen_in_place) in errnos.iter().flat_map(|e| [(e, false), (e, true)]) {
            run_no += 1;
            let d = root.join(format!("f{run_no}"));
            let what = format!(
                "target {target:?} with call #{k} ({name}) failing with {}{}",
                if errno == libc::ENOSPC { "ENOSPC" } else { "EIO" },
                if reopen_in_place { " [then drop + reopen in place]" } else { "" }
            );
            let r = std::panic::catch_unwind(std::panic::AssertUnwindSafe(|| {
                one_fault(case, &d, root, &target, k, errno, n, &what, &mut stats, first_create.map(|x| x as u64), &post_clean, reopen_in_place)
            }));
            let _ = crate::shim::end();
            crate::util::rm_rf(&d);
            match r {
                Ok(Ok(())) => {}
                Ok(Err(w)) => return Err(fail(w)),
                Err(_) => {
                    return Err(fail(format!(
                        "{what}: panic instead of an error: {}",
                        crate::runner::take_panic().unwrap_or_default()
                    )))
                }
            }
        }
        k += stride;
    }
    Ok(stats)
}

#[allow(clippy::too_many_arguments)]
fn one_fault(
    case: &Case,
    d: &Path,
    root: &Path,
    target: &Op,
    k: u64,
    errno: i32,
    n: u64,
    what: &str,
    stats: &mut Stats,
    first_create: Option<u64>,
    post_clean: &Model,
    reopen_in_place: bool,
) -> Result<(), String> {
    let mut ex = prefix(case, d).map_err(|w| format!("HARNESS: prefix not deterministic: {w}"))?;
    ex.max_snaps = 8;
    if case.keys.len() % 2 == 0 {
        ex.apply(&Op::SnapOpen)?;
    }
    crate::audit::after_op(&mut ex).map_err(|w| format!("HARNESS: before target: {w}"))?;
    let pre_model = ex.model.clone();
    let pre_kstate = ex.kstate.clone();
    let pre_wcount = ex.wcount;
    crate::shim::begin(d, false);
    crate::shim::with(|s| {
        s.count_reads = true;
        s.fail_at = Some((k, errno));
    });
    let r = ex.apply(target);
    let sess = crate::shim::end().ok_or("shim session lost")?;
    if sess.fail_fired.is_none() {
        // the call sequence differed from the counting run before the fault fired
        stats.bump("fault.discarded_nondeterministic");
        if sess.calls != n {
            stats.bump("fault.discarded_call_count_differs");
        }
        return Ok(());
    }
    stats.bump("fault.injected");
    if let Some(fc) = first_create {
        if k > fc && k + 1 < n {
            stats.bump("fault.in_commit_path");
        }
    }
    let scratch = root.join("reopen");
    match r {
        Err(msg) => {
            if !msg.contains("returned Err") && !msg.contains("failed:") {
                // not an Err from the tree but a harness-side inconsistency
                return Err(format!("{what}: {msg}"));
            }
            stats.bump("fault.op_returned_err");
            // (a) nothing changed
            let post_fail_model = ex.model.clone();
            ex.model = pre_model.clone();
            ex.kstate = pre_kstate;
            ex.wcount = pre_wcount;
            // a failed flush may have sealed the active memtable already (no logical effect)
            // (and the first half of an ingestion may already have flushed everything):
            // bring the model's notion of where each write lives in line with the tree
            if ex.tree().active_memtable().is_empty() {
                ex.model.rotate();
            }
            if ex.tree().sealed_memtable_count() == 0 {
                ex.model.flush_sealed();
            }
            let _ = post_fail_model;
            crate::audit::after_op(&mut ex).map_err(|w| format!("{what}: the call returned Err but reads changed: {w}"))?;
            if is_compacting(ex.tree()) {
                return Err(format!("{what}: tables stay hidden (is_compacting) after the failed call"));
            }
            // (c) a copy of the directory reopens to the state before (or after) the call
            let after_model = {
                // flush-type ops: what was sealed may have become durable
                let mut m2 = ex.model.clone();
                apply_durability(&mut m2, target);
                m2
            };
            let mids = ex.mid_models.clone();
            let cur = ex.model.clone();
            let mut allowed: Vec<&Model> = vec![&pre_model, &after_model, &cur, post_clean];
            allowed.extend(mids.iter());
            reopen_copy_matches(case, &ex, d, &scratch, &allowed, &format!("{what} (after the failed call)"))?;
            if reopen_in_place {
                reopen_in_place_fn(&mut ex, &allowed, &format!("{what} (after the failed call)"))?;
                stats.bump("fault.reopened_in_place");
                ex.apply(&Op::Insert { k: 0, len: 0 })?;
                ex.apply(&Op::FlushActive { wm: 0 })
                    .map_err(|w| format!("{what}: the reopened tree is not usable: {w}"))?;
                crate::audit::after_op(&mut ex).map_err(|w| format!("{what}: after a follow-up write+flush on the reopened tree: {w}"))?;
                crate::util::rm_rf(&scratch);
                return Ok(());
            }
            // retry
            ex.apply(target).map_err(|w| format!("{what}: retrying the call after the fault cleared failed: {w}"))?;
            crate::audit::after_op(&mut ex).map_err(|w| format!("{what}: after the successful retry: {w}"))?;
            let m_now = ex.model.clone();
            reopen_copy_matches(case, &ex, d, &scratch, &[&m_now], &format!("{what} (after the retry)"))?;
            stats.bump("fault.retry_ok");
        }
        Ok(()) => {
            stats.bump("fault.op_returned_ok");
            crate::audit::after_op(&mut ex).map_err(|w| format!("{what}: the call returned Ok but reads are wrong: {w}"))?;
            let m_now = ex.model.clone();
            reopen_copy_matches(case, &ex, d, &scratch, &[&m_now], &format!("{what} (call returned Ok)"))?;
            if reopen_in_place {
                reopen_in_place_fn(&mut ex, &[&m_now], &format!("{what} (call returned Ok)"))?;
                stats.bump("fault.reopened_in_place");
            }
        }
    }
    // the tree stays usable
    ex.apply(&Op::Insert { k: 0, len: 0 })?;
    ex.apply(&Op::FlushActive { wm: 0 })
        .map_err(|w| format!("{what}: the tree is not usable afterwards: {w}"))?;
    crate::audit::after_op(&mut ex).map_err(|w| format!("{what}: after a follow-up write+flush: {w}"))?;
    crate::util::rm_rf(&scratch);
    Ok(())
}

/// durable effect of a successful target op on the model (for the before-or-after reopen check)
fn apply_durability(m: &mut Model, op: &Op) {
    match op {
        Op::Flush { .. } => m.flush_sealed(),
        Op::FlushActive { .. } | Op::Ingest { .. } => {
            m.rotate();
            m.flush_sealed();
        }
        _ => {}
    }
}

pub fn nontrivial(s: &Stats) -> bool {
    s.get("fault.in_commit_path") > 0 && s.get("fault.op_returned_err") > 0
}

pub fn strategy(p: &crate::gen::GenProfile) -> impl proptest::strategy::Strategy<Value = Case> {
    use proptest::prelude::*;
    let mut tp = p.clone();
    tp.w = crate::gen::Weights {
        insert: 0,
        remove: 0,
        remove_weak: 0,
        batch: 0,
        rotate: 0,
        flush: 2,
        flush_active: 8,
        leveled: 6,
        major: 5,
        movedown: 2,
        pulldown: 4,
        reopen: 0,
        snap_open: 0,
        snap_release: 0,
        ingest: 5,
        drop_range: 4,
        clear: 2,
        scan: 0,
        iter_open: 0,
        iter_step: 0,
        fill: 0,
        swapped: 0,
    };
    (crate::gen::case(p), crate::gen::op(&tp)).prop_map(|(mut c, mut t)| {
        if let Op::Ingest { pre_writes, .. } = &mut t {
            pre_writes.clear();
        }
        c.ops.push(t);
        c
    })
}
