//! proptest strategies for cases. All random choices live here (shrinking and replay depend on it).

use crate::spec::*;
use proptest::collection::vec;
use proptest::prelude::*;

#[derive(Clone, Copy, Debug, PartialEq)]
pub enum BlobMode {
    Never,
    Always,
    Either,
}

#[derive(Clone, Debug)]
pub struct Weights {
    pub insert: u32,
    pub remove: u32,
    pub remove_weak: u32,
    pub batch: u32,
    pub rotate: u32,
    pub flush: u32,
    pub flush_active: u32,
    pub leveled: u32,
    pub major: u32,
    pub movedown: u32,
    pub pulldown: u32,
    pub reopen: u32,
    pub snap_open: u32,
    pub snap_release: u32,
    pub ingest: u32,
    pub drop_range: u32,
    pub clear: u32,
    pub scan: u32,
    pub iter_open: u32,
    pub iter_step: u32,
    pub fill: u32,
    pub swapped: u32,
}

impl Weights {
    pub fn base() -> Self {
        Self {
            insert: 30,
            remove: 10,
            remove_weak: 0,
            batch: 5,
            rotate: 5,
            flush: 4,
            flush_active: 12,
            leveled: 8,
            major: 3,
            movedown: 4,
            pulldown: 4,
            reopen: 2,
            snap_open: 0,
            snap_release: 0,
            ingest: 0,
            drop_range: 0,
            clear: 0,
            scan: 0,
            iter_open: 0,
            iter_step: 0,
            fill: 2,
            swapped: 2,
        }
    }
}

#[derive(Clone, Debug)]
pub struct GenProfile {
    pub max_ops: usize,
    pub min_keys: usize,
    pub max_keys: usize,
    pub blob: BlobMode,
    pub w: Weights,
    pub n_cfgs: usize,
    pub weak_keys_max: u16,
    pub multi_gen: bool,
    pub verdicts: bool,
    pub tiny: bool,
    pub big_values: bool,
    /// percentage of cases that use a big key pool
    pub big_pool_pct: u32,
    /// percentage of cases built around one huge data block whose number of restart intervals sits at
    /// the 254/255/256 boundary of the one-byte hash-index slots (tree-level counterpart of C12's
    /// boundary generator)
    pub dense_pct: u32,
}

/// 300-1400 short keys (prefix + big-endian counter): reaches blocks with more than 254 entries,
/// several index / filter partitions and tables with many blocks at tree level
pub fn big_pool() -> impl Strategy<Value = Vec<Vec<u8>>> {
    (
        prop_oneof![Just(vec![]), Just(vec![b'k']), vec(any::<u8>(), 1..4)],
        300usize..1400,
        prop_oneof![Just(1usize), Just(3usize), Just(7usize)],
    )
        .prop_map(|(p, n, step)| {
            (0..n)
                .map(|i| {
                    let mut k = p.clone();
                    k.extend_from_slice(&((i * step) as u16).to_be_bytes());
                    k
                })
                .collect()
        })
}

pub fn key_pool(min: usize, max: usize) -> impl Strategy<Value = Vec<Vec<u8>>> {
    let prefix = prop_oneof![
        6 => Just(vec![]),
        4 => vec(prop_oneof![Just(b'a'), Just(b'k'), Just(0u8), Just(0xFFu8), any::<u8>()], 1..4),
        2 => vec(any::<u8>(), 4..40),
        1 => vec(prop_oneof![Just(b'p'), any::<u8>()], 100..200),
    ];
    let small = vec(
        prop_oneof![Just(0u8), Just(b'a'), Just(b'b'), Just(0xFFu8)],
        0..4,
    );
    let suffix = prop_oneof![
        5 => small,
        4 => vec(any::<u8>(), 1..10),
        1 => vec(prop_oneof![Just(b'x'), any::<u8>()], 40..400),
    ];
    let bigkey = prop_oneof![
        9 => Just(None),
        1 => (1500usize..6000, any::<u8>()).prop_map(|(n, b)| Some(vec![b; n])),
    ];
    (prefix, vec(suffix, min..=max), bigkey).prop_map(|(p, sufs, big)| {
        let mut keys: Vec<Vec<u8>> = sufs
            .into_iter()
            .map(|s| {
                let mut k = p.clone();
                k.extend_from_slice(&s);
                if k.is_empty() {
                    k.push(b'a');
                }
                k
            })
            .collect();
        if let Some(mut b) = big {
            let mut k = p.clone();
            k.append(&mut b);
            keys.push(k);
        }
        keys.sort();
        keys.dedup();
        // guarantee a few fixed adversarial neighbours when the pool got too small
        if keys.len() < 4 {
            for extra in [vec![b'a'], vec![b'a', 0xFF], vec![b'a', 0xFF, 0xFF], vec![0xFF], vec![0xFF, 0xFF, 0]] {
                let mut k = p.clone();
                k.extend_from_slice(&extra);
                keys.push(k);
            }
            keys.sort();
            keys.dedup();
        }
        keys
    })
}

fn policy<T: Clone + std::fmt::Debug + 'static>(
    elem: impl Strategy<Value = T> + Clone + 'static,
) -> impl Strategy<Value = Vec<T>> {
    prop_oneof![
        3 => elem.clone().prop_map(|e| vec![e]),
        2 => vec(elem, 2..=4),
    ]
}

pub fn blob_spec() -> impl Strategy<Value = BlobSpec> {
    (
        prop_oneof![1 => Just(0u32), 3 => Just(1u32), 3 => Just(8u32), 3 => Just(64u32), 3 => Just(1024u32)],
        prop_oneof![Just(1u64), Just(256), Just(4096), Just(64 << 20)],
        prop_oneof![Just(0.000_001f32), Just(0.1), Just(0.5), Just(0.9)],
        prop_oneof![Just(0.25f32), Just(0.5), Just(1.0)],
        any::<bool>(),
    )
        .prop_map(|(threshold, target, staleness, age_cutoff, lz4)| BlobSpec {
            threshold,
            target,
            staleness,
            age_cutoff,
            lz4,
        })
}

pub fn cfg_spec(blob: BlobMode, tiny: bool) -> impl Strategy<Value = CfgSpec> {
    let bs = if tiny {
        prop_oneof![
            3 => Just(1u32), 3 => Just(64), 2 => Just(128), 1 => Just(512), 1 => Just(4096)
        ]
        .boxed()
    } else {
        prop_oneof![
            2 => Just(1u32), 2 => Just(64), 2 => Just(128), 2 => Just(512), 3 => Just(4096), 1 => Just(65_536)
        ]
        .boxed()
    };
    let restart = prop_oneof![
        2 => Just(1u8), 2 => Just(2), 2 => Just(3), 3 => Just(16), 1 => 1u8..=255
    ];
    let ratio = prop_oneof![3 => Just(0.0f32), 1 => Just(0.5f32), 1 => Just(1.0f32), 1 => Just(4.0f32), 1 => Just(8.0f32)];
    let filt = prop_oneof![
        2 => Just(FilterSpec::None),
        1 => Just(FilterSpec::Bpk(0.0)),
        4 => (1u8..20).prop_map(|b| FilterSpec::Bpk(b as f32)),
        2 => prop_oneof![Just(0.5f32), Just(0.1), Just(0.01), Just(0.0001)].prop_map(FilterSpec::Fpr),
    ];
    let blob_s = match blob {
        BlobMode::Never => Just(None).boxed(),
        BlobMode::Always => blob_spec().prop_map(Some).boxed(),
        BlobMode::Either => prop_oneof![Just(None), blob_spec().prop_map(Some)].boxed(),
    };
    (
        (
            blob_s,
            policy(bs),
            policy(restart),
            policy(ratio),
            policy(any::<bool>()),
            policy(any::<bool>()),
            policy(any::<bool>()),
        ),
        (
            policy(any::<bool>()),
            policy(filt),
            proptest::bool::weighted(0.2),
            policy(any::<bool>()),
            policy(any::<bool>()),
            prop_oneof![Just(0u64), Just(4096), Just(16 << 20)],
            prop_oneof![Just(None), Just(Some(1usize)), Just(Some(2)), Just(Some(256))],
        ),
    )
        .prop_map(
            |(
                (blob, block_size, restart, hash_ratio, index_part, filter_part, pin_index),
                (pin_filter, filter, expect_hits, data_lz4, index_lz4, cache_bytes, fd_table),
            )| CfgSpec {
                blob,
                block_size,
                restart,
                hash_ratio,
                index_part,
                filter_part,
                pin_index,
                pin_filter,
                filter,
                expect_hits,
                data_lz4,
                index_lz4,
                cache_bytes,
                fd_table,
            },
        )
}

pub fn wkind(weak: bool, big: bool) -> impl Strategy<Value = WKind> {
    let len = if big {
        prop_oneof![8 => 0u8..240, 1 => 240u8..=255].boxed()
    } else {
        (0u8..240).boxed()
    };
    if weak {
        prop_oneof![6 => len.prop_map(WKind::Put), 2 => Just(WKind::Del), 3 => Just(WKind::WeakDel)]
            .boxed()
    } else {
        prop_oneof![6 => len.prop_map(WKind::Put), 2 => Just(WKind::Del)].boxed()
    }
}

pub fn bound_spec() -> impl Strategy<Value = BoundSpec> {
    prop_oneof![
        1 => Just(BoundSpec::Unbounded),
        5 => (any::<u16>(), 0u8..4, any::<bool>()).prop_map(|(k, variant, incl)| BoundSpec::Key { k, variant, incl }),
    ]
}

pub fn wm() -> impl Strategy<Value = u16> {
    prop_oneof![2 => Just(0u16), 5 => Just(u16::MAX), 3 => any::<u16>()]
}

pub fn scan_spec(weak: bool) -> impl Strategy<Value = ScanSpec> {
    (
        prop_oneof![
            3 => Just(None),
            2 => (any::<u16>(), prop_oneof![4 => any::<u8>(), 1 => Just(255u8), 1 => Just(254u8)]).prop_map(Some)
        ],
        bound_spec(),
        bound_spec(),
        prop_oneof![3 => Just(0u8), 1 => Just(1u8), 3 => 2u8..8],
        vec(any::<bool>(), 0..24),
        any::<bool>(),
        prop_oneof![3 => Just(vec![]), 1 => vec((any::<u16>(), wkind(weak, false)), 1..6)],
        prop_oneof![4 => Just(0u8), 1 => Just(1u8), 1 => Just(2u8)],
    )
        .prop_map(
            |(prefix, lo, hi, snap, pops, drain_front, overlay, accessor)| ScanSpec {
                prefix,
                lo,
                hi,
                snap,
                pops,
                drain_front,
                overlay,
                accessor,
            },
        )
}

pub fn op(p: &GenProfile) -> BoxedStrategy<Op> {
    let w = &p.w;
    let weak = p.weak_keys_max > 0;
    let big = p.big_values;
    let tl = if p.tiny {
        prop_oneof![4 => 0u8..8, 3 => 8u8..13, 1 => 13u8..27].boxed()
    } else {
        prop_oneof![2 => 0u8..8, 3 => 8u8..13, 3 => 13u8..27].boxed()
    };
    let len = if big {
        prop_oneof![8 => 0u8..240, 1 => 240u8..=255].boxed()
    } else {
        (0u8..240).boxed()
    };
    let mut alts: Vec<(u32, BoxedStrategy<Op>)> = vec![
        (
            w.insert,
            (any::<u16>(), len).prop_map(|(k, len)| Op::Insert { k, len }).boxed(),
        ),
        (w.remove, any::<u16>().prop_map(|k| Op::Remove { k }).boxed()),
        (w.remove_weak, any::<u16>().prop_map(|k| Op::RemoveWeak { k }).boxed()),
        (
            w.batch,
            vec((any::<u16>(), wkind(weak, big)), 1..6)
                .prop_map(|items| Op::Batch { items })
                .boxed(),
        ),
        (
            w.fill,
            (any::<u16>(), prop_oneof![3 => 2u16..40, 2 => 40u16..400, 1 => 400u16..1500, 2 => prop_oneof![Just(254u16), Just(255u16), Just(256u16), Just(257u16), Just(508u16), Just(510u16), Just(512u16)]], prop_oneof![3 => Just(16u8), 2 => Just(0u8), 1 => 0u8..240], proptest::bool::weighted(0.15), any::<bool>())
                .prop_map(|(start, n, len, del, one_seqno)| Op::Fill { start, n, len, del, one_seqno })
                .boxed(),
        ),
        (
            w.swapped,
            (any::<u16>(), any::<u16>(), 0u8..240).prop_map(|(a, b, len)| Op::Swapped { a, b, len }).boxed(),
        ),
        (w.rotate, Just(Op::Rotate).boxed()),
        (w.flush, wm().prop_map(|wm| Op::Flush { wm }).boxed()),
        (w.flush_active, wm().prop_map(|wm| Op::FlushActive { wm }).boxed()),
        (
            w.leveled,
            (1u8..=8, tl.clone(), 10u8..=100, wm())
                .prop_map(|(l0, target_log2, ratio_x10, wm)| Op::Leveled {
                    l0,
                    target_log2,
                    ratio_x10,
                    wm,
                })
                .boxed(),
        ),
        (
            w.major,
            (prop_oneof![3 => tl, 1 => Just(64u8)], wm())
                .prop_map(|(target_log2, wm)| Op::Major { target_log2, wm })
                .boxed(),
        ),
        (
            w.movedown,
            (any::<u8>(), wm()).prop_map(|(pair, wm)| Op::MoveDown { pair, wm }).boxed(),
        ),
        (
            w.pulldown,
            (any::<u8>(), wm()).prop_map(|(pair, wm)| Op::PullDown { pair, wm }).boxed(),
        ),
        (
            w.reopen,
            (any::<u8>(), any::<bool>())
                .prop_map(|(cfg, restart_counters)| Op::Reopen { cfg, restart_counters })
                .boxed(),
        ),
        (w.snap_open, Just(Op::SnapOpen).boxed()),
        (w.snap_release, any::<u8>().prop_map(|slot| Op::SnapRelease { slot }).boxed()),
        (
            w.ingest,
            (
                vec((any::<u16>(), wkind(weak, big)), 0..12),
                prop_oneof![3 => Just(vec![]), 1 => vec((any::<u16>(), wkind(weak, false)), 1..4)],
            )
                .prop_map(|(entries, pre_writes)| Op::Ingest { entries, pre_writes })
                .boxed(),
        ),
        (
            w.drop_range,
            (bound_spec(), bound_spec()).prop_map(|(lo, hi)| Op::DropRange { lo, hi }).boxed(),
        ),
        (w.clear, Just(Op::Clear).boxed()),
        (w.scan, scan_spec(weak).prop_map(Op::Scan).boxed()),
        (
            w.iter_open,
            (bound_spec(), bound_spec(), prop_oneof![3 => Just(0u8), 2 => Just(1u8), 2 => 2u8..8])
                .prop_map(|(lo, hi, snap)| Op::IterOpen { lo, hi, snap })
                .boxed(),
        ),
        (
            w.iter_step,
            prop_oneof![
                3 => (any::<u8>(), vec(any::<bool>(), 1..5)).prop_map(|(slot, pops)| Op::IterStep { slot, pops }),
                1 => (any::<u8>(), any::<bool>()).prop_map(|(slot, front)| Op::IterClose { slot, front }),
            ]
            .boxed(),
        ),
    ];
    alts.retain(|(w, _)| *w > 0);
    proptest::strategy::Union::new_weighted(alts).boxed()
}

pub fn verdict_table() -> impl Strategy<Value = Vec<VerdictSpec>> {
    vec(
        prop_oneof![
            3 => Just(VerdictSpec::Keep),
            2 => Just(VerdictSpec::Remove),
            1 => Just(VerdictSpec::RemoveWeak),
            3 => any::<u8>().prop_map(VerdictSpec::Replace),
            1 => Just(VerdictSpec::Destroy),
        ],
        1..8,
    )
}

/// big pool, one 4 MiB data block per flush, hash index on, restart interval r in 1..=3, and a leading
/// Fill+Flush per configuration that puts 255*r + delta (delta in -2..=2) entries into one block
fn dense_case(p: &GenProfile) -> BoxedStrategy<Case> {
    let n_cfgs = p.n_cfgs;
    let multi_gen = p.multi_gen;
    (
        big_pool(),
        vec(
            (
                cfg_spec(p.blob, p.tiny),
                prop_oneof![3 => Just(1u8), 2 => Just(2u8), 1 => Just(3u8)],
                prop_oneof![Just(0.5f32), Just(1.0f32), Just(4.0f32), Just(8.0f32)],
                -2i32..=2,
                any::<bool>(),
                wm(),
            ),
            n_cfgs..=n_cfgs,
        ),
        vec(op(p), 1..=p.max_ops.max(8) / 2),
    )
        .prop_map(move |(keys, cs, ops)| {
            let mut cfgs = vec![];
            let mut lead = vec![];
            for (mut c, r, ratio, delta, one_seqno, wm) in cs {
                let r = (r as usize).min(((keys.len().saturating_sub(2)) / 255).max(1));
                c.block_size = vec![4 << 20];
                c.restart = vec![r as u8];
                c.hash_ratio = vec![ratio];
                let n = (255 * r as i32 + delta).max(1) as u16;
                lead.push(Op::Fill { start: 0, n, len: 0, del: false, one_seqno });
                lead.push(Op::FlushActive { wm });
                cfgs.push(c);
            }
            let b0 = cfgs[0].blob.clone();
            for c in cfgs.iter_mut().skip(1) {
                match (&b0, &mut c.blob) {
                    (None, Some(_)) => c.blob = None,
                    (Some(b), None) => c.blob = Some(b.clone()),
                    (Some(b), Some(cb)) => cb.lz4 = b.lz4,
                    _ => {}
                }
            }
            lead.extend(ops);
            Case {
                keys,
                cfgs,
                ops: lead,
                verdicts: vec![],
                weak_keys: 0,
                multi_gen,
            }
        })
        .boxed()
}

pub fn case(p: &GenProfile) -> BoxedStrategy<Case> {
    if p.dense_pct > 0 {
        let mut q = p.clone();
        q.dense_pct = 0;
        return prop_oneof![
            (100 - p.dense_pct) => case(&q),
            p.dense_pct => dense_case(&q),
        ]
        .boxed();
    }
    let verdicts = if p.verdicts {
        verdict_table().boxed()
    } else {
        Just(vec![]).boxed()
    };
    let blob = p.blob;
    let tiny = p.tiny;
    let n_cfgs = p.n_cfgs;
    let multi_gen = p.multi_gen;
    let weak_max = p.weak_keys_max;
    // all cfgs of a case share the tree type: generate the first, then force the others to match
    let pool = if p.big_pool_pct > 0 {
        prop_oneof![
            (100 - p.big_pool_pct) => key_pool(p.min_keys, p.max_keys),
            p.big_pool_pct => big_pool(),
        ]
        .boxed()
    } else {
        key_pool(p.min_keys, p.max_keys).boxed()
    };
    (
        pool,
        vec(cfg_spec(blob, tiny), n_cfgs..=n_cfgs),
        vec(op(p), 1..=p.max_ops),
        verdicts,
        0..=weak_max,
    )
        .prop_map(move |(keys, mut cfgs, ops, verdicts, weak_keys)| {
            let b0 = cfgs[0].blob.clone();
            for c in cfgs.iter_mut().skip(1) {
                match (&b0, &mut c.blob) {
                    (None, Some(_)) => c.blob = None,
                    (Some(b), None) => c.blob = Some(b.clone()),
                    // blob compression stays what the directory was created with (changing it between
                    // opens is outside every listed property's quantifier; see DESIGN.md section 6)
                    (Some(b), Some(cb)) => cb.lz4 = b.lz4,
                    _ => {}
                }
            }
            Case {
                keys,
                cfgs,
                ops,
                verdicts,
                weak_keys,
                multi_gen,
            }
        })
        .boxed()
}
