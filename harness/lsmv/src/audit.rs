//! Auditors that run after every op.

use crate::exec::{check_point, guard_kv, Exec, Key, SnapView, R};
use crate::model::Expect;
use crate::util::hex;
use lsm_tree::{AbstractTree, AnyTree, SeqNo, ValueType};
use std::collections::BTreeMap;
use std::path::PathBuf;

pub fn after_op(ex: &mut Exec) -> R<()> {
    let a = ex.audits.clone();
    if a.point {
        audit_points(ex)?;
    }
    if a.scan_latest {
        let s = ex.visible.get();
        let got = full_scan(ex.tree(), s)?;
        check_scan(ex, s, &got, "latest scan")?;
    }
    if a.snapshots {
        audit_snapshots(ex, false)?;
    }
    if a.structure {
        structure(ex)?;
    }
    if a.manifest {
        crate::manifest::audit(ex)?;
    }
    if a.blob_ptr || a.gc_stats {
        crate::blob::audit(ex)?;
    }
    if a.seqno_marks {
        seqno_marks(ex)?;
    }
    if a.files {
        files(ex)?;
    }
    Ok(())
}

pub fn at_end(ex: &mut Exec) -> R<()> {
    if ex.audits.snapshots {
        audit_snapshots(ex, true)?;
    }
    Ok(())
}

fn get_vec(t: &AnyTree, k: &[u8], s: SeqNo) -> R<Option<Vec<u8>>> {
    t.get(k, s)
        .map(|o| o.map(|v| v.to_vec()))
        .map_err(|e| format!("get({}) at {s} returned Err: {e:?}", hex(k)))
}

pub fn audit_points(ex: &mut Exec) -> R<()> {
    let s = ex.visible.get();
    let deep = ex.audits.point_deep;
    let t = ex.tree().clone();
    let is_blob = ex.is_blob();
    let thr = ex.blob_threshold();
    let mut n = 0u64;
    // big pools: every key after each version change, a rotating window of 96 keys otherwise
    let total = ex.keys.len();
    let full = total <= 128 || ex.layout_changed;
    let win_start = (ex.op_no * 61) % total.max(1);
    ex.layout_changed = false;
    for (i, k) in ex.keys.iter().enumerate() {
        if !full && (i + total - win_start) % total >= 96 {
            continue;
        }
        let got = get_vec(&t, k, s)?;
        let exact = check_point(&ex.model, k, s, &got, "get")?;
        n += 1;
        if deep || (i + ex.op_no) % 3 == 0 {
            let got_max = get_vec(&t, k, SeqNo::MAX)?;
            // everything written is published, so MAX equals the newest snapshot
            check_point(&ex.model, k, SeqNo::MAX, &got_max, "get@MAX")?;
            let c = t
                .contains_key(k, s)
                .map_err(|e| format!("contains_key Err: {e:?}"))?;
            if c != got.is_some() {
                return Err(format!(
                    "contains_key({}) = {c} but get returned {}",
                    hex(k),
                    crate::util::show_val(&got)
                ));
            }
            let sz = t
                .size_of(k, s)
                .map_err(|e| format!("size_of Err: {e:?}"))?;
            if sz != got.as_ref().map(|v| v.len() as u32) {
                return Err(format!(
                    "size_of({}) = {sz:?} but get returned {}",
                    hex(k),
                    crate::util::show_val(&got)
                ));
            }
            let ie = t
                .get_internal_entry(k, s)
                .map_err(|e| format!("get_internal_entry Err: {e:?}"))?;
            match (&ie, &got) {
                (None, None) => {}
                (Some(e), Some(v)) => {
                    if exact {
                        if let Expect::Exact(Some((_, seq))) = ex.model.read(k, s) {
                            if e.key.seqno != seq {
                                return Err(format!(
                                    "get_internal_entry({}) seqno {} but the deciding write has seqno {seq}",
                                    hex(k),
                                    e.key.seqno
                                ));
                            }
                        }
                    }
                    match e.key.value_type {
                        ValueType::Value => {
                            if e.value.as_ref() != v.as_slice() {
                                return Err(format!("get_internal_entry({}) value differs from get", hex(k)));
                            }
                            if let (true, Some(thr)) = (is_blob, thr) {
                                // inline values in a blob tree are below the threshold unless written by
                                // a filter; nothing to demand here
                                let _ = thr;
                            }
                        }
                        ValueType::Indirection => {
                            if !is_blob {
                                return Err(format!("standard tree returned an indirection for {}", hex(k)));
                            }
                        }
                        other => {
                            return Err(format!(
                                "get_internal_entry({}) returned a {other:?} entry as live",
                                hex(k)
                            ))
                        }
                    }
                }
                _ => {
                    return Err(format!(
                        "get_internal_entry({}) presence {} differs from get {}",
                        hex(k),
                        ie.is_some(),
                        got.is_some()
                    ))
                }
            }
        }
    }
    if ex.audits.absent_probes {
        for k in &ex.probes {
            let got = get_vec(&t, k, s)?;
            if got.is_some() {
                return Err(format!(
                    "get of never-written key {} returned {}",
                    hex(k),
                    crate::util::show_val(&got)
                ));
            }
            n += 1;
        }
    }
    ex.stats.add("reads.point", n);
    Ok(())
}

pub fn full_scan(t: &AnyTree, s: SeqNo) -> R<Vec<(Key, Vec<u8>)>> {
    let mut out = vec![];
    for g in t.iter(s, None) {
        out.push(guard_kv(g)?);
    }
    Ok(out)
}

/// Compare an observed full scan with the model at snapshot `s`.
pub fn check_scan(ex: &Exec, s: SeqNo, got: &[(Key, Vec<u8>)], what: &str) -> R<()> {
    for w in got.windows(2) {
        if w[0].0 >= w[1].0 {
            return Err(format!(
                "{what} at {s}: keys not strictly ascending: {} then {}",
                hex(&w[0].0),
                hex(&w[1].0)
            ));
        }
    }
    let exp = ex.model.scan(s);
    let gm: BTreeMap<&Key, &Vec<u8>> = got.iter().map(|(k, v)| (k, v)).collect();
    for (k, e) in &exp {
        match (e, gm.get(k)) {
            (Expect::Exact(Some((v, _))), Some(g)) => {
                if &v != g {
                    crate::exec::note_fail_key(k);
                    return Err(format!(
                        "{what} at {s}: key {} has value {} expected {}",
                        hex(k),
                        crate::util::show_val(&Some((*g).clone())),
                        crate::util::show_val(&Some(v.clone()))
                    ));
                }
            }
            (Expect::Exact(Some(_)), None) => {
                crate::exec::note_fail_key(k);
                return Err(format!("{what} at {s}: live key {} missing from scan", hex(k)));
            }
            (Expect::Loose, Some(g)) => {
                if !ex.model.was_ever_written(k, g) {
                    return Err(format!(
                        "{what} at {s}: key {} has a value never written for it",
                        hex(k)
                    ));
                }
            }
            _ => {}
        }
    }
    let em: BTreeMap<&Key, &Expect> = exp.iter().map(|(k, e)| (k, e)).collect();
    for (k, _) in got {
        if !em.contains_key(k) {
            crate::exec::note_fail_key(k);
            return Err(format!(
                "{what} at {s}: scan yielded key {} which the model says is absent (deleted, overwritten-by-delete or never written)",
                hex(k)
            ));
        }
    }
    Ok(())
}

pub fn snapshot_view(ex: &Exec, s: SeqNo) -> R<SnapView> {
    let t = ex.tree();
    let mut points = vec![];
    for k in &ex.keys {
        points.push(get_vec(t, k, s)?);
    }
    let scan = full_scan(t, s)?;
    // the prefix entry point is separate code in both tree types: use it too, from the back
    let p = snap_prefix(ex);
    let mut pscan = vec![];
    for g in t.prefix(&p, s, None).rev() {
        pscan.push(guard_kv(g)?);
    }
    pscan.reverse();
    Ok(SnapView { points, scan, pscan })
}

pub fn snap_prefix(ex: &Exec) -> Vec<u8> {
    ex.keys[ex.keys.len() / 2][..1].to_vec()
}

pub fn check_view(ex: &Exec, s: SeqNo, v: &SnapView) -> R<()> {
    {
        let p = snap_prefix(ex);
        let exp: Vec<&(Key, Vec<u8>)> = v.scan.iter().filter(|(k, _)| k.starts_with(&p)).collect();
        let got: Vec<&(Key, Vec<u8>)> = v.pscan.iter().collect();
        if exp != got {
            return Err(format!(
                "prefix({}) at snapshot {s} yields {} items {:?} but the full scan at the same snapshot restricted to the prefix has {} items {:?}",
                hex(&p),
                got.len(),
                got.iter().map(|x| hex(&x.0)).collect::<Vec<_>>(),
                exp.len(),
                exp.iter().map(|x| hex(&x.0)).collect::<Vec<_>>()
            ));
        }
    }
    for (k, got) in ex.keys.iter().zip(v.points.iter()) {
        check_point(&ex.model, k, s, got, "snapshot get")?;
    }
    check_scan(ex, s, &v.scan, "snapshot scan")?;
    let n = ex
        .tree()
        .len(s, None)
        .map_err(|e| format!("len Err: {e:?}"))?;
    if n != v.scan.len() {
        return Err(format!(
            "len({s}) = {n} but the scan at the same snapshot yielded {} items",
            v.scan.len()
        ));
    }
    Ok(())
}

pub fn audit_snapshots(ex: &mut Exec, all: bool) -> R<()> {
    let n = ex.snaps.len();
    if n == 0 {
        return Ok(());
    }
    let all = all || ex.op_no % 4 == 0;
    for i in 0..n {
        let due = all || ex.snaps[i].stored.is_none() || (ex.op_no + i) % n == 0;
        if !due {
            continue;
        }
        let s = ex.snaps[i].s;
        let view = snapshot_view(ex, s)?;
        check_view(ex, s, &view)?;
        match &ex.snaps[i].stored {
            None => {
                ex.snaps[i].stored = Some(view);
            }
            Some(old) => {
                if old != &view {
                    // find the first difference for the message
                    let mut msg = String::from("full scan differs");
                    for (k, (a, b)) in ex.keys.iter().zip(old.points.iter().zip(view.points.iter())) {
                        if a != b {
                            msg = format!(
                                "get({}) was {} now {}",
                                hex(k),
                                crate::util::show_val(a),
                                crate::util::show_val(b)
                            );
                            break;
                        }
                    }
                    return Err(format!("snapshot {s} changed its answer: {msg}"));
                }
                if ex.installs > ex.snaps[i].installs_at_open {
                    ex.snaps[i].rereads_after_change += 1;
                    ex.stats.bump("snap.reread_after_version_change");
                    if ex.last_wm > 0 {
                        ex.stats.bump("snap.reread_after_gc");
                    }
                }
            }
        }
        ex.stats.bump("reads.snapshot_view");
    }
    Ok(())
}

// ---------------------------------------------------------------------------------------------
// C07: structural audit of the current version

pub struct TableDump {
    pub id: u64,
    pub level: usize,
    pub run: usize,
    pub items: Vec<(Key, SeqNo, ValueType, Vec<u8>)>,
}

pub fn dump_tables(t: &AnyTree) -> R<Vec<TableDump>> {
    let v = t.current_version();
    let mut out = vec![];
    for (li, level) in v.iter_levels().enumerate() {
        for (ri, run) in level.iter().enumerate() {
            for table in run.iter() {
                let mut items = vec![];
                for it in table.iter() {
                    let it = it.map_err(|e| format!("Table::iter Err on table {}: {e:?}", table.id()))?;
                    items.push((
                        it.key.user_key.to_vec(),
                        it.key.seqno,
                        it.key.value_type,
                        it.value.to_vec(),
                    ));
                }
                out.push(TableDump {
                    id: table.id(),
                    level: li,
                    run: ri,
                    items,
                });
            }
        }
    }
    Ok(out)
}

pub fn structure(ex: &mut Exec) -> R<()> {
    let t = ex.tree().clone();
    let v = t.current_version();
    // per-key list of (read position, table id, max seqno, min seqno)
    let mut per_key: BTreeMap<Key, Vec<(usize, u64, SeqNo, SeqNo)>> = BTreeMap::new();
    let mut pos = 0usize;
    let mut max_tables_in_run = 0usize;
    for (li, level) in v.iter_levels().enumerate() {
        for (ri, run) in level.iter().enumerate() {
            pos += 1;
            max_tables_in_run = max_tables_in_run.max(run.len());
            // run order and disjointness
            let tables: Vec<_> = run.iter().collect();
            for w in tables.windows(2) {
                let a = &w[0].metadata.key_range;
                let b = &w[1].metadata.key_range;
                if !(a.max() < b.min()) {
                    return Err(format!(
                        "L{li} run {ri}: tables {} [{}..{}] and {} [{}..{}] are not disjoint and ascending",
                        w[0].id(),
                        hex(a.min()),
                        hex(a.max()),
                        w[1].id(),
                        hex(b.min()),
                        hex(b.max())
                    ));
                }
            }
            for table in run.iter() {
                if !table.path.exists() {
                    return Err(format!("table {} names a missing file {:?}", table.id(), table.path));
                }
                let mut n = 0u64;
                let mut tomb = 0u64;
                let mut weak = 0u64;
                let mut reclaim = 0u64;
                let mut hi: Option<SeqNo> = None;
                let mut first: Option<Key> = None;
                let mut last: Option<(Key, SeqNo, ValueType)> = None;
                let mut scanned = table
                    .scan()
                    .map_err(|e| format!("Table::scan Err: {e:?}"))?;
                for it in table.iter() {
                    let it = it.map_err(|e| format!("Table::iter Err on table {}: {e:?}", table.id()))?;
                    let sc = scanned
                        .next()
                        .ok_or_else(|| format!("table {}: scan() ended before iter()", table.id()))?
                        .map_err(|e| format!("Table::scan item Err: {e:?}"))?;
                    if sc.key.user_key != it.key.user_key
                        || sc.key.seqno != it.key.seqno
                        || sc.key.value_type != it.key.value_type
                        || sc.value != it.value
                    {
                        return Err(format!(
                            "table {}: scan() and iter() disagree at item {n}: {:?} vs {:?}",
                            table.id(),
                            sc.key,
                            it.key
                        ));
                    }
                    let k = it.key.user_key.to_vec();
                    if let Some((lk, ls, lt)) = &last {
                        let ord_ok = (lk < &k) || (lk == &k && *ls > it.key.seqno);
                        if !ord_ok {
                            return Err(format!(
                                "table {}: items out of order: ({}, {ls}) then ({}, {})",
                                table.id(),
                                hex(lk),
                                hex(&k),
                                it.key.seqno
                            ));
                        }
                        if lk == &k && *lt == ValueType::WeakTombstone && it.key.value_type == ValueType::Value {
                            reclaim += 1;
                        }
                    }
                    if first.is_none() {
                        first = Some(k.clone());
                    }
                    n += 1;
                    if it.key.value_type.is_tombstone() {
                        tomb += 1;
                    }
                    if it.key.value_type == ValueType::WeakTombstone {
                        weak += 1;
                    }
                    hi = Some(hi.map_or(it.key.seqno, |h: SeqNo| h.max(it.key.seqno)));
                    let e = per_key.entry(k.clone()).or_default();
                    match e.last_mut() {
                        Some(x) if x.0 == pos && x.1 == table.id() => {
                            x.3 = it.key.seqno;
                        }
                        Some(x) if x.0 == pos => {
                            return Err(format!(
                                "L{li} run {ri}: key {} appears in two tables of one run ({} and {})",
                                hex(&k),
                                x.1,
                                table.id()
                            ));
                        }
                        _ => e.push((pos, table.id(), it.key.seqno, it.key.seqno)),
                    }
                    last = Some((k, it.key.seqno, it.key.value_type));
                }
                if scanned.next().is_some() {
                    return Err(format!("table {}: scan() yields more items than iter()", table.id()));
                }
                let m = &table.metadata;
                if n == 0 {
                    return Err(format!("table {} is empty", table.id()));
                }
                if m.item_count != n {
                    return Err(format!("table {}: item_count {} but {n} items", table.id(), m.item_count));
                }
                if table.tombstone_count() != tomb {
                    return Err(format!(
                        "table {}: tombstone_count {} but {tomb} tombstones",
                        table.id(),
                        table.tombstone_count()
                    ));
                }
                if table.weak_tombstone_count() != weak {
                    return Err(format!(
                        "table {}: weak_tombstone_count {} but {weak}",
                        table.id(),
                        table.weak_tombstone_count()
                    ));
                }
                if table.weak_tombstone_reclaimable() != reclaim {
                    return Err(format!(
                        "table {}: weak_tombstone_reclaimable {} but {reclaim}",
                        table.id(),
                        table.weak_tombstone_reclaimable()
                    ));
                }
                if Some(table.get_highest_seqno()) != hi {
                    return Err(format!(
                        "table {}: get_highest_seqno {} but max stored seqno {hi:?}",
                        table.id(),
                        table.get_highest_seqno()
                    ));
                }
                let first = first.expect("n>0");
                let lastk = last.expect("n>0").0;
                if m.key_range.min().as_ref() != first.as_slice() || m.key_range.max().as_ref() != lastk.as_slice() {
                    return Err(format!(
                        "table {}: key_range [{}..{}] but contents span [{}..{}]",
                        table.id(),
                        hex(m.key_range.min()),
                        hex(m.key_range.max()),
                        hex(&first),
                        hex(&lastk)
                    ));
                }
            }
        }
    }
    let mut shared = 0;
    for (k, list) in &per_key {
        if list.len() >= 2 {
            shared += 1;
        }
        for w in list.windows(2) {
            // consulted first (w[0]) must hold only newer seqnos
            if !(w[0].3 > w[1].2) {
                return Err(format!(
                    "key {}: table {} (consulted first) holds seqnos down to {} but table {} (consulted later) holds up to {}",
                    hex(k),
                    w[0].1,
                    w[0].3,
                    w[1].1,
                    w[1].2
                ));
            }
        }
    }
    if max_tables_in_run >= 3 {
        ex.stats.bump("struct.3tables_in_run");
        if shared > 0 {
            ex.stats.bump("struct.3tables_and_shared_key");
        }
    }
    if shared > 0 {
        ex.stats.bump("struct.shared_key");
    }
    ex.stats.bump("audit.structure");
    Ok(())
}

// ---------------------------------------------------------------------------------------------
// C18

pub fn seqno_marks(ex: &mut Exec) -> R<()> {
    let t = ex.tree().clone();
    let v = t.current_version();
    let mut hi: Option<SeqNo> = None;
    let mut hi_ingested = false;
    for table in v.iter_tables() {
        for it in table.iter() {
            let it = it.map_err(|e| format!("Table::iter Err: {e:?}"))?;
            if hi.map_or(true, |h| it.key.seqno > h) {
                hi = Some(it.key.seqno);
                hi_ingested = table.global_seqno() > 0;
            }
        }
    }
    let p = t.get_highest_persisted_seqno();
    if p != hi {
        return Err(format!(
            "get_highest_persisted_seqno() = {p:?} but the largest seqno stored in tables is {hi:?}"
        ));
    }
    let m = t.get_highest_memtable_seqno();
    let em = ex.model.highest_mem_seqno();
    if m != em {
        return Err(format!(
            "get_highest_memtable_seqno() = {m:?} but the largest unflushed write has seqno {em:?}"
        ));
    }
    let all = t.get_highest_seqno();
    if all != p.max(m) {
        return Err(format!("get_highest_seqno() = {all:?} but persisted={p:?} memtable={m:?}"));
    }
    let prev = ex.stats.get("marks.last_persisted_plus1");
    if let Some(h) = hi {
        if prev > 0 && h + 1 < prev {
            ex.stats.bump("marks.decreased");
        }
        ex.stats.ctr.insert("marks.last_persisted_plus1".into(), h + 1);
    } else {
        if prev > 0 {
            ex.stats.bump("marks.decreased");
        }
        ex.stats.ctr.insert("marks.last_persisted_plus1".into(), 0);
    }
    if hi_ingested {
        ex.stats.bump("marks.max_is_ingested");
    }
    ex.stats.bump("audit.marks");
    Ok(())
}

// ---------------------------------------------------------------------------------------------
// C20

struct DirOnly {
    dir: PathBuf,
}

pub fn version_files(t: &AnyTree) -> Vec<PathBuf> {
    let v = t.current_version();
    let mut out: Vec<PathBuf> = v.iter_tables().map(|t| (*t.path).clone()).collect();
    for bf in v.blob_files.iter() {
        out.push(bf.path().to_path_buf());
    }
    out.sort();
    out
}

pub fn files(ex: &mut Exec) -> R<()> {
    let t = ex.tree().clone();
    // safety: current version
    let cur = version_files(&t);
    let cur_id = t.current_version().id();
    for f in &cur {
        if !f.exists() {
            return Err(format!("file {f:?} named by the current version does not exist"));
        }
    }
    if !ex.dir.join("current").exists() {
        return Err("`current` file missing".into());
    }
    if !ex.dir.join(format!("v{cur_id}")).exists() {
        return Err(format!("version file v{cur_id} missing"));
    }
    // safety: live snapshots above the last watermark
    for s in &ex.snaps {
        // the protocol guarantees every watermark used while the snapshot is held is below it
        for f in &s.files {
            if !f.exists() {
                return Err(format!(
                    "file {f:?} needed by live snapshot {} was deleted",
                    s.s
                ));
            }
        }
    }
    // safety: iterators that are still alive (any seqno; one opened at SeqNo::MAX is above every watermark)
    for li in &ex.iters {
        for f in &li.files {
            if !f.exists() {
                return Err(format!(
                    "file {f:?} of the version that {} was opened on was deleted while the iterator is still alive",
                    li.desc
                ));
            }
        }
    }
    // reclamation
    if ex.snaps.is_empty() && ex.iters.is_empty() && t.version_free_list_len() == 0 {
        reclamation(ex, &cur, cur_id, "quiescent (free list empty, no snapshot)")?;
        ex.stats.bump("files.reclamation_checked");
        if ex.installs > ex.installs_at_open {
            ex.stats.bump("files.reclamation_checked_after_installs");
            if ex.stats.get("c.merge") + ex.stats.get("m.major") + ex.stats.get("m.pulldown") + ex.stats.get("m.drop_range_dropped") + ex.stats.get("m.clear") > 0 {
                ex.stats.bump("files.reclamation_checked_after_replacement");
            }
        }
        if ex.stats.get("m.clear") > 0 && ex.stats.get("m.drop_range_dropped") > 0 && ex.stats.get("c.merge") + ex.stats.get("m.major") + ex.stats.get("m.pulldown") > 0 {
            ex.stats.bump("files.reclamation_checked_rich");
        }
    }
    ex.stats.bump("audit.files");
    Ok(())
}

pub fn reclamation(ex: &Exec, cur: &[PathBuf], cur_id: u64, when: &str) -> R<()> {
    reclamation_dir(&ex.dir, cur, cur_id, when)
}

/// directory-vs-version comparison for a tree opened at `dir`
pub fn reclamation_of(dir: &std::path::Path, t: &AnyTree, when: &str) -> R<()> {
    let cur = version_files(t);
    let id = t.current_version().id();
    reclamation_dir(dir, &cur, id, when)
}

pub fn reclamation_dir(dir: &std::path::Path, cur: &[PathBuf], cur_id: u64, when: &str) -> R<()> {
    let ex = DirOnly { dir: dir.to_path_buf() };
    let mut expected: Vec<PathBuf> = cur.to_vec();
    expected.push(ex.dir.join(format!("v{cur_id}")));
    expected.sort();
    let mut actual = vec![];
    for sub in ["tables", "blobs"] {
        if let Ok(rd) = std::fs::read_dir(ex.dir.join(sub)) {
            for e in rd.flatten() {
                actual.push(e.path());
            }
        }
    }
    if let Ok(rd) = std::fs::read_dir(&ex.dir) {
        for e in rd.flatten() {
            let name = e.file_name().to_string_lossy().to_string();
            if e.path().is_file() && name.starts_with('v') && name[1..].chars().all(|c| c.is_ascii_digit()) {
                actual.push(e.path());
            }
        }
    }
    actual.sort();
    if actual != expected {
        let extra: Vec<_> = actual.iter().filter(|p| !expected.contains(p)).collect();
        let missing: Vec<_> = expected.iter().filter(|p| !actual.contains(p)).collect();
        return Err(format!(
            "{when}: directory does not match the current version: unreferenced files {extra:?}, missing files {missing:?}"
        ));
    }
    Ok(())
}
