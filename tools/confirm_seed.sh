#!/bin/bash
# usage: confirm_seed.sh <worktree> <name> <property>
# Confirms an independently produced seeded defect in ITS OWN scratch worktree:
#  (1) full existing suite passes with the patch, (2) demo fails with the patch, (3) demo passes without.
# On success stores patch.diff, the demo and meta.json under /verif/seeded/<name>/.
WT="$1"; NAME="$2"; PROP="$3"
cd "$WT" || exit 2
export CARGO_NET_OFFLINE=true
git diff -- src > /tmp/confirm_$NAME.diff
[ -s /tmp/confirm_$NAME.diff ] || { echo "no src change in worktree"; exit 2; }
suite=$(cargo nextest run --workspace --no-fail-fast --offline -E 'not binary(seeded_demo)' 2>&1 | grep -E "Summary|tests run" | tail -1)
with=$(cargo nextest run --offline --test seeded_demo 2>&1 | grep -E "Summary|tests run" | tail -1)
git apply -R /tmp/confirm_$NAME.diff
without=$(cargo nextest run --offline --test seeded_demo 2>&1 | grep -E "Summary|tests run" | tail -1)
git apply /tmp/confirm_$NAME.diff
echo "suite(with patch): $suite"; echo "demo with patch:   $with"; echo "demo without:      $without"
ok=1
echo "$suite" | grep -q "432 passed" || ok=0
echo "$with" | grep -q "failed" || ok=0
echo "$without" | grep -q "failed" && ok=0
echo "$without" | grep -q "passed" || ok=0
if [ $ok = 1 ]; then
  D=/verif/seeded/$NAME; mkdir -p $D
  cp /tmp/confirm_$NAME.diff $D/patch.diff
  cp tests/seeded_demo.rs $D/seeded_demo.rs
  [ -f meta.txt ] && cp meta.txt $D/meta.txt
  python3 - "$D" "$NAME" "$PROP" "$suite" "$with" "$without" <<'PY'
import json,sys
d,name,prop,suite,w,wo=sys.argv[1:7]
json.dump({"name":name,"breaks_property":prop,"source":"independent sub-agent given only the property text and a scratch worktree",
 "confirmed":{"existing_suite_with_patch":suite.strip(),"demo_with_patch":w.strip(),"demo_without_patch":wo.strip()},
 "needs_to_manifest":"see meta.txt","checks_run":{}},open(d+"/meta.json","w"),indent=1)
PY
  echo "CONFIRMED -> $D"
else
  echo "NOT CONFIRMED"
fi
