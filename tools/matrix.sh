#!/bin/bash
# usage (inside a `vp run --with-repo` snapshot): tools/matrix.sh <file with lines "seed ID ID ...">
# Applies each seeded patch to the repo SNAPSHOT ($VP_RUN_REPO), runs the quick checks, reverts.
REPO="${VP_RUN_REPO:?needs a repo snapshot}"
sed -i "s#path = \"/repo\"#path = \"$REPO\"#" harness/lsmv/Cargo.toml
export LSMV_CASE_TIMEOUT_MS=900000
while read -r seed ids; do
  [ -z "$seed" ] && continue
  if ! git -C "$REPO" apply --check "$PWD/seeded/$seed/patch.diff" 2>/dev/null; then echo "$seed: patch does not apply"; continue; fi
  git -C "$REPO" apply "$PWD/seeded/$seed/patch.diff"
  for id in $ids; do
    t0=$(date +%s); out=$(./check $id quick 2>&1); rc=$?; t1=$(date +%s)
    echo "MATRIX $seed $id exit=$rc $((t1-t0))s cases=$(echo "$out" | grep -oE "quick: [0-9]+ cases" | grep -oE "[0-9]+" | tail -1) $(echo "$out" | grep -E '^(FAILURE|HARNESS|WATCHDOG)' | head -1 | cut -c1-200)"
  done
  git -C "$REPO" checkout -- .
done < "$1"
