#!/usr/bin/env python3
"""Sensitivity testing: apply a named one-line mutation to /repo's working tree, run checks, revert.
usage: mutate.py <name> <ID> [<ID>...]     (mutations are never committed to /repo)"""
import subprocess, sys, re, os, time
R='/repo/'
M={
 'sealed_oldest_first': ('src/tree/mod.rs', 'for mt in super_version.sealed_memtables.iter().rev() {\n            if let Some(entry) = mt.get(key, seqno)', 'for mt in super_version.sealed_memtables.iter() {\n            if let Some(entry) = mt.get(key, seqno)'),
 'seqno_filter_le': ('src/range.rs', 'item_seqno < seqno\n', 'item_seqno <= seqno\n'),
 'maintenance_pops_kept': ('src/version/super_version.rs', 'for _ in 0..hi_idx {', 'for _ in 0..=hi_idx {'),
 'table_id_restart': ('src/tree/mod.rs', 'table_id_counter: SequenceNumberCounter::new(highest_table_id + 1),', 'table_id_counter: SequenceNumberCounter::new(highest_table_id),'),
 'no_dir_fsync_persist': ('src/version/persist.rs', '    file.sync_all()?;\n\n    fsync_directory(folder)?;\n', '    file.sync_all()?;\n'),
 'no_version_file_sync': ('src/version/persist.rs', '    file.sync_all()?;\n\n    fsync_directory(folder)?;\n', '    fsync_directory(folder)?;\n'),
 'no_race_check': ('src/tree/mod.rs', '.any(|id| !version_lock.latest_version().sealed_memtables.contains(id))', '.any(|_id| false)'),
 'rotate_inside_key': ('src/table/multi_writer.rs', 'if is_next_key {\n            self.current_key = Some(item.key.user_key.clone());\n\n            if *self.writer.meta.file_pos >= self.target_size {\n                self.rotate()?;\n            }\n        }', 'if is_next_key {\n            self.current_key = Some(item.key.user_key.clone());\n        }\n        if *self.writer.meta.file_pos >= self.target_size {\n            self.rotate()?;\n        }'),
 'skip_other_refs': ('src/compaction/worker.rs', 'if picked_tables.contains(&table.id()) {\n            continue;\n        }', 'if true || picked_tables.contains(&table.id()) {\n            continue;\n        }'),
 'drain_no_callback': ('src/compaction/stream.rs', 'if expired {\n                        if let Some(watcher) = &mut self.dropped_callback {\n                            watcher.on_dropped(kv);\n                        }\n                    }', 'if expired {\n                    }'),
 'cache_key_no_tree': ('src/cache.rs', 'let key: CacheKey = (TAG_BLOCK, id.tree_id(), id.table_id(), *offset).into();', 'let key: CacheKey = (TAG_BLOCK, 0, id.table_id(), *offset).into();'),
 'ingest_seqno_zero': ('src/tree/ingest.rs', 'checksum,\n                    global_seqno,\n                    self.tree.id,', 'checksum,\n                    0,\n                    self.tree.id,'),
 'contains_le_excluded': ('src/compaction/drop_range.rs', 'Bound::Excluded(key) => key.as_ref() < range.min().as_ref(),', 'Bound::Excluded(key) => key.as_ref() <= range.min().as_ref(),'),
 'no_unhide': ('src/compaction/worker.rs', '        compaction_state\n            .hidden_set_mut()\n            .show(payload.table_ids.iter().copied());\n    })\n}', '        let _ = &mut compaction_state;\n    })\n}'),
 'remove_is_drop': ('src/compaction/filter.rs', 'Verdict::Remove => Ok(StreamFilterVerdict::Replace((\n                ValueType::Tombstone,\n                UserValue::empty(),\n            ))),', 'Verdict::Remove => Ok(StreamFilterVerdict::Drop),'),
 'persisted_ignores_global': ('src/table/mod.rs', 'self.metadata.seqnos.1 + self.global_seqno()', 'self.metadata.seqnos.1'),
 'fifo_sort_desc': ('src/compaction/fifo.rs', 'alive.sort_by_key(|t| t.metadata.created_at);', 'alive.sort_by_key(|t| std::cmp::Reverse(t.metadata.created_at));'),
 'evict_tombstone_early': ('src/compaction/worker.rs', 'let is_last_level = payload.dest_level == last_level;\n\n    merge_iter', 'let is_last_level = payload.dest_level + 1 >= last_level;\n\n    merge_iter'),
 'memtable_mark_ignores_sealed': ('src/tree/mod.rs', 'active.max(sealed)\n', 'let _ = sealed;\n        active\n'),
 'drop_weak_no_type_test': ('src/compaction/stream.rs', 'let drop_weak_tombstone = peeked.key.value_type == ValueType::Value\n                        && head.key.value_type == ValueType::WeakTombstone;', 'let drop_weak_tombstone = head.key.value_type == ValueType::WeakTombstone;'),
 'skip_block_checksum': ('src/table/block/mod.rs', None, None),
 'clear_keeps_active': ('src/tree/mod.rs', 'copy.active_memtable = Arc::new(Memtable::new(self.memtable_id_counter.next()));\n                copy.sealed_memtables = Arc::default();\n                copy.version = Version::new(v.version.id() + 1, self.tree_type());', 'copy.sealed_memtables = Arc::default();\n                copy.version = Version::new(v.version.id() + 1, self.tree_type());'),
 'current_before_sync': ('src/version/persist.rs', None, None),
 'prefix_no_carry': ('src/range.rs', 'if *byte < 255 {\n            *byte += 1;\n            end.truncate(idx + 1);', 'if *byte < 255 || idx == len - 1 {\n            *byte = byte.wrapping_add(1);\n            end.truncate(idx + 1);'),
 'run_get_for_key_le': ('src/version/run.rs', 'let idx = self.partition_point(|x| x.key_range().max() < &key);', 'let idx = self.partition_point(|x| x.key_range().max() <= &key);'),
 'optimize_first_run': ('src/version/optimize.rs', 'Some(idx) => new_runs.get_mut(idx + 1),', 'Some(idx) => new_runs.get_mut(idx),'),
 'with_dropped_ignores_linked': ('src/version/mod.rs', 'let gc_stats = if dropped_tables.is_empty() {', 'let gc_stats = if true || dropped_tables.is_empty() {'),
 'index_first_key': None,
}
def main():
    name=sys.argv[1]; ids=sys.argv[2:]
    f,old,new=M[name]
    p=R+f
    s=open(p).read()
    if old is None:
        print('mutation needs manual patch'); sys.exit(3)
    if old not in s:
        print('PATTERN NOT FOUND in',f); sys.exit(3)
    open(p,'w').write(s.replace(old,new,1))
    rc={}
    try:
        for i in ids:
            t=time.time()
            r=subprocess.run(['/verif/check',i,'quick'],capture_output=True,text=True,cwd='/verif')
            out=(r.stdout+r.stderr)
            line=[l for l in out.splitlines() if l.startswith('FAILURE') or l.startswith('HARNESS') or l.startswith('WATCHDOG')]
            rc[i]=r.returncode
            print(f'{name} {i}: exit {r.returncode} in {time.time()-t:.0f}s', (line[0][:300] if line else ''))
    finally:
        subprocess.run(['git','-C','/repo','checkout','--','.'])
        # remove replay files produced by the mutation
        for fn in os.listdir('/verif/replays'):
            pass
    sys.exit(0)
main()
