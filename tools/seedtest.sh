#!/bin/bash
# usage: seedtest.sh <patch.diff> <ID> [<ID>...]   applies the patch to /repo's working tree, runs the quick
# checks, reverts. Never commits. Prints one line per check.
P="$(readlink -f "$1")"; shift
cd /verif
if ! git -C /repo apply --check "$P" 2>/dev/null; then echo "patch does not apply"; exit 3; fi
git -C /repo apply "$P"
for id in "$@"; do
  t0=$(date +%s)
  out=$(./check $id ${TIER:-quick} 2>&1); rc=$?
  t1=$(date +%s)
  echo "$id exit=$rc $((t1-t0))s $(echo "$out" | grep -E '^(FAILURE|HARNESS|WATCHDOG)' | head -1 | cut -c1-260)"
done
git -C /repo checkout -- .
