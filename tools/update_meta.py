#!/usr/bin/env python3
"""usage: update_meta.py <matrix log>...   folds 'MATRIX <seed> <ID> exit=<rc> <secs>s <first failure line>' lines into
seeded/<seed>/meta.json (checks_run) and prints a markdown table."""
import json, sys, re, os, collections
res = collections.OrderedDict()
for f in sys.argv[1:]:
    for l in open(f, errors='replace'):
        m = re.match(r'MATRIX (\S+) (\S+) exit=(\d+) (\d+)s ?(?:cases=\d* )?(.*)', l)
        if m:
            seed, cid, rc, secs, msg = m.groups()
            res.setdefault(seed, collections.OrderedDict())[cid] = {"exit": int(rc), "seconds": int(secs), "first_failure": msg.strip()[:200]}
for seed, d in res.items():
    p = f'/verif/seeded/{seed}/meta.json'
    if not os.path.exists(p): continue
    meta = json.load(open(p))
    cr = meta.get("checks_run") or {}
    for cid, r in d.items():
        cr[cid + " quick"] = r
    meta["checks_run"] = cr
    json.dump(meta, open(p, 'w'), indent=1)
    caught = [c for c, r in d.items() if r["exit"] == 1]
    missed = [c for c, r in d.items() if r["exit"] == 0]
    other = [c for c, r in d.items() if r["exit"] not in (0, 1)]
    print(f"| {seed} | {', '.join(caught) or '-'} | {', '.join(missed) or '-'} | {', '.join(other) or ''} |")
