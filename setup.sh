#!/bin/sh
# Offline build of the harness from files on disk only.
set -e
cd "$(dirname "$0")/harness"
export CARGO_NET_OFFLINE=true
cargo build --release 2>&1 | tail -3
