#!/usr/bin/env python3
import json,sys,glob
fs=sys.argv[1:] or sorted(glob.glob('/verif/replays/*.json'))
for f in fs:
    r=json.load(open(f))
    c=r['case']
    print(f, 'keys',[bytes(k)[:12].hex() for k in c['keys']][:12], 'weak',c['weak_keys'],'blob',c['cfgs'][0]['blob'])
    for i,o in enumerate(c['ops']): print(' ',i,o)
    print(' ',r['failure']['what'][:400])
