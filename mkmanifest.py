#!/usr/bin/env python3
"""Regenerates MANIFEST.json from the table below (kept in one place so it stays valid)."""
import json, subprocess
ids=[json.loads(l)['id'] for l in open('/verif/properties.jsonl')]
FE={'C05','C10','C16'}
claimed = {
 'C01': ('proptest model-based history testing (ordered-map MVCC model, point reads after every op)', 'E1', '3 C01'),
 'C02': ('proptest model-based history testing with stored-answer snapshot re-reads and long-lived iterators', 'E1', '3 C02'),
 'C03': ('proptest model-based scan queries consumed from both ends (+overlay)', 'E1', '3 C03'),
 'C04': ('proptest model-based history testing with reopen at generated positions', 'E1', '3 C04'),
 'C07': ('proptest history testing with structural invariant audit + independent manifest decoder', 'E1', '3 C07'),
 'C14': ('proptest model-based history testing with bulk ingestion', 'E1', '3 C14'),
 'C15': ('proptest model-based history testing with drop_range/clear and taint-aware oracle', 'E1', '3 C15'),
 'C18': ('proptest history testing; marks compared with full table scans and the model', 'E1', '3 C18'),
 'C20': ('proptest history testing with directory-vs-version audit (incl. iterators held at SeqNo::MAX) + reopen-and-list of every enumerated crash image (C05 machinery) and every failed-operation directory (C16 machinery)', 'E1', '3 C20'),
}
import importlib.util, os
extra = '/verif/manifest_extra.json'
if os.path.exists(extra):
    claimed.update({k: tuple(v) for k, v in json.load(open(extra)).items()})
commits = subprocess.run(['git','-C','/repo','log','--format=%h %s'],capture_output=True,text=True).stdout.splitlines()
hook_commits=[c.split()[0] for c in commits if 'verif' in c.lower() and not c.split()[1].startswith('fix:')]
checks=[]
for i in ids:
    if i not in claimed: continue
    tech, eng, ref = claimed[i]
    level = 'fault_enumeration' if i in FE else 'exploration'
    checks.append({
      "property_id": i,
      "quick_cmd": f"./check {i} quick",
      "thorough_cmd": f"./check {i} thorough",
      "evidence_file": f"/verif/evidence/{i}.json",
      "replay_cmd_template": f"./check {i} replay {{path}}",
      "engine": eng,
      "level_claimed": {
        "category": level,
        "text": ("Generated-input search against an explicit oracle: the property held on every generated case (counts, non-triviality rule and samples are in the evidence file). Bounded exploration, not a proof; the quantifier ranges over histories/configurations too large to enumerate, so randomised model-based search with shrinking is the appropriate level."
                 if level=='exploration' else
                 "Generated histories with an exhaustive (up to a stated cap) enumeration of the fault dimension (crash cut x persistence outcome / failed syscall / corrupted byte) against an explicit oracle. Bounded, not a proof."),
        "design_ref": f"DESIGN.md section {ref}",
      },
      "level_note": "Trusted base: the harness's ordered-map MVCC model and self-written decoders; lsm-tree's doc-hidden inspection API (current_version, Table::iter) is used to observe physical state; usage protocol of DESIGN.md section 0/1.3 is assumed.",
      "technique": tech,
    })
na=[{"property_id":i,"reason":"check not built yet in this session (work in progress; see DESIGN.md)"} for i in ids if i not in claimed]
ENG={'E1':"proptest-driven model-based history engine (Vec<AbstractOp> + interpreter + MVCC model + auditors), 16 workers, shrinking to replay JSON",
'E1t':"proptest table-level round-trip engine (tablecheck.rs)",'E1f':"proptest FIFO engine with virtual clock (fifo.rs)",
'E2/E3':"in-binary libc interposition (shim.rs) + crash-image synthesiser (crash.rs) / fault planner (fault.rs)",
'E3':"corruption enumerator with isolated worker processes (corrupt.rs)",'E4':"deterministic one-baton schedule explorer over real threads with verif_hooks yield points (sched.rs)"}
m={"version":1,"setup_cmd":"./setup.sh",
"hooks":{"guard":"cargo feature verif_hooks","enable":"harness built with cargo feature `hooks` which enables lsm-tree/verif_hooks","baseline_off_cmd":"cd /repo && CARGO_NET_OFFLINE=true cargo nextest run --workspace --no-fail-fast --offline || (cd /repo && cargo test --workspace --no-fail-fast --offline)","source_commits":hook_commits,"add_only":True},
"engines":[{"name":e,"path":"harness/lsmv/src","serves_properties":[i for i in ids if i in claimed and claimed[i][1]==e],"kind_free_text":t} for e,t in ENG.items()],
"checks":checks,
"not_applicable":na,
"notes":"All checks: ./check <ID> quick|thorough|replay. Exit 2 = harness problem (build failure, watchdog), never a violation. known_findings.json lists fixed/known findings and is never written at run time."}
json.dump(m,open('/verif/MANIFEST.json','w'),indent=1)
print(len(checks),'checks',len(na),'n/a')
